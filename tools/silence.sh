#!/bin/bash
# silence.sh <tier> <seed>...   every check on the (supposedly unchanged) tree under several seeds;
# prints one line per run and a summary of anything that is not exit 0.
TIER=$1; shift
cd /verif || exit 2
bad=0
for seed in "$@"; do
  for p in C01 C02 C03 C04 C05 C06 C07 C08 C09 C10 C11 C12 C13 C14 C15 C16 C17 C18 C19 C20; do
    s=$(date +%s)
    o=$(VERIF_SEED=$seed ./check $p $TIER 2>&1); c=$?
    e=$(( $(date +%s) - s ))
    line=$(echo "$o" | grep -E "^$p $TIER:" | cut -c1-160)
    echo "seed=$seed $p exit=$c ${e}s $line"
    if [ $c -ne 0 ]; then bad=$((bad+1)); echo "$o" | grep -E "violation|VIOLATION|inconclusive" | head -5 | cut -c1-300; fi
  done
done
echo "runs with non-zero exit: $bad"
