#!/bin/bash
# matrix.sh [quick|thorough]  -- applies every own mutant and every seeded change to /repo in turn,
# runs the check of the property it targets, reverts; writes /verif/seeded/MATRIX.md.
TIER=${1:-quick}
# EVAL_REPO / EVAL_VROOT as in eval_seed.sh
REPO=${EVAL_REPO:-/repo}; VROOT=${EVAL_VROOT:-/verif}
export VERIF_REPO=$REPO
OUT=/verif/seeded/MATRIX.md
cd /verif || exit 2
if [ -n "$(git -C $REPO status --porcelain --untracked-files=no)" ]; then echo "repo dirty"; exit 2; fi
rm -rf /tmp/evidence-backup-matrix; cp -r $VROOT/evidence /tmp/evidence-backup-matrix
restore() { git -C $REPO checkout -- . ; git -C $REPO reset -q --hard; rm -rf $VROOT/evidence; mv /tmp/evidence-backup-matrix $VROOT/evidence; }
trap restore EXIT
{
echo "# Which check catches which change ($TIER tier)"
echo
echo "Each row: the change is applied to the repository (\`git apply\`; a scratch worktree of /repo at the same HEAD when EVAL_REPO is set), the check of the property it targets is run, the change is reverted. exit 1 = caught (VIOLATION), 0 = missed, 2 = inconclusive."
echo
echo "| change | property | exit | first reported failure |"
echo "|---|---|---|---|"
} > $OUT
run() { # name patch prop
  git -C $REPO apply "$2" 2>/dev/null || { git -C $REPO apply -3 "$2" >/dev/null 2>&1 && git -C $REPO reset -q; } || { git -C $REPO reset -q --hard; echo "| $1 | $3 | n/a | patch does not apply to the current tree (written against an earlier HEAD; see its meta.json for the verdict at that time) |" >> $OUT; return; }
  o=$($VROOT/check $3 $TIER 2>&1); c=$?
  git -C $REPO checkout -- .
  sig=$(echo "$o" | grep -E '^violation:' | head -1 | cut -c12-150 | tr '|' '/' )
  [ -z "$sig" ] && [ $c -eq 1 ] && sig="process crash / sanitizer report (see replay file)"
  echo "| $1 | $3 | $c | $sig |" >> $OUT
  echo "$1 $3 exit=$c"
}
for d in /verif/seeded/C*-*/; do n=$(basename $d); p=${n%%-*}; run "seeded/$n" $d/patch.diff $p; done
for f in /verif/tools/mutants/*.diff; do b=$(basename $f .diff); p=$(echo $b | cut -c1-3 | tr c C); run "mutants/$b" $f $p; done
echo >> $OUT
echo "caught: $(grep -c '| 1 |' $OUT)  missed: $(grep -c '| 0 |' $OUT)  other: $(grep -c '| 2 |\|n/a' $OUT)" >> $OUT
tail -1 $OUT
