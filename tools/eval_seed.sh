#!/bin/bash
# eval_seed.sh <PROP> <patch-file> <demo-file> <name> [extra props to run]
# 1. confirms in a scratch worktree that the patch compiles, passes the baseline
#    suite, and that the demo fails with it and passes without it;
# 2. applies it to /repo, runs the quick check(s), reverts;
# 3. stores patch, demo and meta.json under /verif/seeded/<name>/.
# EVAL_REPO / EVAL_VROOT: evaluate against a scratch worktree of /repo (same HEAD) with a copy of the
# harness (same sources) instead of /repo and /verif themselves, so that long clean-tree runs can go on there.
PROP=$1; PATCH=$2; DEMO=$3; NAME=$4; shift 4
REPO=${EVAL_REPO:-/repo}; VROOT=${EVAL_VROOT:-/verif}
export VERIF_REPO=$REPO
OUT=/verif/seeded/$NAME
W=/tmp/scratch-eval-$NAME
mkdir -p "$OUT"
git -C /repo worktree remove --force "$W" 2>/dev/null; rm -rf "$W"
git -C /repo worktree add -q --detach "$W" HEAD || exit 2
cleanup() { git -C /repo worktree remove --force "$W" 2>/dev/null; rm -rf "$W"; git -C $REPO checkout -- . 2>/dev/null; }
trap cleanup EXIT
cd "$W"
export CARGO_NET_OFFLINE=true CARGO_TARGET_DIR=/tmp/scratch-eval-target
if ! git apply "$PATCH"; then echo "$NAME: PATCH DOES NOT APPLY"; exit 3; fi
base=pass; cargo test --offline --quiet > "$OUT/baseline.log" 2>&1 || base=fail
cp "$DEMO" tests/demo.rs
if [ "$PROP" = "C18" ]; then
  with=compiles; cargo test --offline --quiet --test demo --no-run > "$OUT/demo_with.log" 2>&1 || with=rejected
  git apply -R "$PATCH"
  without=compiles; cargo test --offline --quiet --test demo --no-run > "$OUT/demo_without.log" 2>&1 || without=rejected
  demo_ok=no; [ "$with" != "$without" ] && demo_ok=yes
else
  with=pass; cargo test --offline --quiet --test demo > "$OUT/demo_with.log" 2>&1 || with=fail
  git apply -R "$PATCH"
  without=pass; cargo test --offline --quiet --test demo > "$OUT/demo_without.log" 2>&1 || without=fail
  demo_ok=no; [ "$with" = fail ] && [ "$without" = pass ] && demo_ok=yes
fi
cd /verif; unset CARGO_TARGET_DIR
cp "$PATCH" "$OUT/patch.diff"; cp "$DEMO" "$OUT/demo.rs"
results=""
if [ -n "$(git -C $REPO status --porcelain --untracked-files=no)" ]; then echo "repo dirty"; exit 2; fi
rm -rf /tmp/evidence-backup-$NAME; cp -r $VROOT/evidence /tmp/evidence-backup-$NAME
git -C $REPO apply "$PATCH" || { echo "cannot apply to $REPO"; exit 3; }
for p in $PROP "$@"; do
  o=$($VROOT/check $p ${TIER:-quick} 2>&1); c=$?
  sig=$(echo "$o" | grep -E '^violation:' | head -1 | cut -c1-200 | sed 's/"/'"'"'/g')
  results="$results{\"property\":\"$p\",\"tier\":\"${TIER:-quick}\",\"exit\":$c,\"first_violation\":\"$sig\"},"
  echo "$NAME check $p exit=$c $sig"
done
git -C $REPO checkout -- .
# evidence written while a mutant was applied is not evidence about the tree
rm -rf $VROOT/evidence; mv /tmp/evidence-backup-$NAME $VROOT/evidence
cat > "$OUT/meta.json" <<EOM
{
 "name": "$NAME",
 "breaks_property": "$PROP",
 "source": "independent sub-agent given only the property text and a scratch worktree",
 "baseline_suite_with_patch": "$base",
 "demo_with_patch": "$with",
 "demo_without_patch": "$without",
 "demo_confirms": "$demo_ok",
 "checks_run": [${results%,}],
 "commands": ["git apply patch.diff (scratch worktree)", "cargo test --offline", "cargo test --offline --test demo (with / without patch)", "git -C $REPO apply patch.diff; $VROOT/check <P> quick; git -C $REPO checkout -- ."]
}
EOM
rm -f "$OUT/demo_with.log.tmp"
echo "$NAME: baseline=$base demo_with=$with demo_without=$without confirmed=$demo_ok"
