#!/bin/bash
# try_patch.sh <patch.diff> <PROP>...   apply a patch to /repo, check that the
# baseline tests still pass, run the quick checks, revert.
P="$1"; shift
cd /repo || exit 2
if [ -n "$(git status --porcelain --untracked-files=no)" ]; then echo "repo dirty"; exit 2; fi
git apply "$P" || { echo "patch does not apply"; exit 2; }
rm -rf /tmp/evidence-backup-tp; cp -r /verif/evidence /tmp/evidence-backup-tp
trap 'git -C /repo checkout -- . ; git -C /repo clean -fdq src tests 2>/dev/null; rm -rf /verif/evidence; mv /tmp/evidence-backup-tp /verif/evidence' EXIT
if [ -z "${SKIP_BASELINE:-}" ]; then
  if ! cargo test --offline --quiet > /tmp/try_patch_baseline.log 2>&1; then echo "BASELINE FAILS (not a realistic change)"; tail -5 /tmp/try_patch_baseline.log; fi
fi
for prop in "$@"; do
  out=$(cd /verif && timeout 1200 ./check "$prop" ${TIER:-quick} 2>&1); code=$?
  echo "$(basename "$P") $prop exit=$code $(echo "$out" | grep -E 'violation:|KNOWN' | head -2 | cut -c1-220 | tr '\n' ' ')"
done
