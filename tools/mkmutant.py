#!/usr/bin/env python3
"""mkmutant.py <name> <file> <<< 'OLD\n===\nNEW'  -- writes tools/mutants/<name>.diff (a patch against /repo HEAD)."""
import subprocess, sys
name, path = sys.argv[1], sys.argv[2]
spec = sys.stdin.read()
old, new = spec.split("\n===\n")
new = new.rstrip("\n") if not old.endswith("\n") else new
full = "/repo/" + path
s = open(full).read()
old = old.rstrip("\n")
new = new.rstrip("\n")
if s.count(old) != 1:
    sys.exit(f"{name}: pattern occurs {s.count(old)} times in {path}")
open(full, "w").write(s.replace(old, new))
d = subprocess.run(["git", "-C", "/repo", "diff"], capture_output=True, text=True).stdout
subprocess.run(["git", "-C", "/repo", "checkout", "--", "."], check=True)
open(f"/verif/tools/mutants/{name}.diff", "w").write(d)
print("wrote", name, len(d.splitlines()), "lines")
