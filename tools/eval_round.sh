#!/bin/bash
# eval_round.sh <outdir> <first-index> [props...]  evaluates every <outdir>/<PROP>/{a,b}/ delivered by a
# sub-agent with eval_seed.sh; names them <PROP>-<first-index>, <PROP>-<first-index+1>.
OUT=$1; IDX=$2; shift 2
cd /verif || exit 2
for p in "$@"; do
  i=$IDX
  for v in a b; do
    d=$OUT/$p/$v
    if [ -f $d/patch.diff ] && [ -f $d/demo.rs ]; then
      name=$p-$i
      if [ -f seeded/$name/meta.json ]; then echo "$name already evaluated"; else
        bash tools/eval_seed.sh $p $d/patch.diff $d/demo.rs $name 2>&1 | tail -2
        [ -f $d/notes.md ] && cp $d/notes.md seeded/$name/notes.md
      fi
    fi
    i=$((i+1))
  done
done
