#![no_main]
//! Coverage-guided search over the MemSize type menu: first two bytes pick
//! the type, the rest drives its generator.

use std::sync::{Mutex, OnceLock};

use libfuzzer_sys::fuzz_target;
use lruverif::runner::{self, Accum, Known};
use lruverif::shapes::{self, MemStats, ShapeRun};

#[global_allocator]
static GLOBAL: lruverif::alloc::VAlloc = lruverif::alloc::VAlloc;

struct State {
    prop: &'static str,
    known: Vec<Known>,
    acc: Accum,
    stats_file: Option<String>,
    menu: Vec<Box<dyn ShapeRun + Send>>,
}

static STATE: OnceLock<Mutex<State>> = OnceLock::new();

fn state() -> &'static Mutex<State> {
    STATE.get_or_init(|| {
        lruverif::detect_alloc();
        // some runners raise and catch panics on purpose (poisoning a lock): libFuzzer's
        // abort-on-panic hook must not see those
        lruverif::tracked::install_panic_hook(false);
        let prop = std::env::var("VERIF_PROP").ok().and_then(|p| runner::static_prop(&p)).unwrap_or("C08");
        let root = std::env::var("VERIF_ROOT").unwrap_or_else(|_| "/verif".into());
        let known = runner::load_known(std::path::Path::new(&root));
        let stats_file = std::env::var("VERIF_FUZZ_STATS").ok().map(|p| format!("{}.{}", p, std::process::id()));
        Mutex::new(State { prop, known, acc: Accum::default(), stats_file, menu: shapes::menu_send() })
    })
}

fuzz_target!(|data: &[u8]| {
    if data.len() < 2 {
        return;
    }
    let mut st = state().lock().unwrap_or_else(|e| e.into_inner());
    let idx = (data[0] as usize | (data[1] as usize) << 8) % st.menu.len();
    let bytes = &data[2..];
    let prop = st.prop;
    let mut local = MemStats::default();
    let name = st.menu[idx].name();
    let fails = st.menu[idx].run(bytes, &mut local);
    st.acc.cases += 1;
    st.acc.steps += local.checks;
    let nts = if prop == "C08" { &local.nontrivial8 } else { &local.nontrivial9 };
    if !nts.is_empty() { st.acc.nt_cases += 1; }
    for s in nts { st.acc.nt.insert(s.clone()); }
    if st.acc.samples.len() < 3 && !nts.is_empty() {
        st.acc.samples.push(lruverif::engines::mem_case_text(&name, bytes).trim().to_string());
    }
    for f in &fails {
        if f.tags.contains(&prop) {
            if runner::is_known(&st.known, prop, &f.sig).is_some() {
                *st.acc.known.entry(f.sig.clone()).or_insert(0) += 1;
            }
            else {
                let text = lruverif::engines::mem_case_text(&name, bytes);
                eprintln!("VERIF-FUZZ-VIOLATION property={} sig={} : {}\n{}", prop, f.sig, f.msg, text);
                drop(st);
                panic!("property {} violated: [{}] {}", prop, f.sig, f.msg);
            }
        }
        else {
            *st.acc.foreign.entry(f.sig.clone()).or_insert(0) += 1;
        }
    }
    if st.acc.cases % 2000 == 0 {
        if let Some(p) = &st.stats_file {
            let _ = std::fs::write(p, serde_json::to_string(&st.acc.to_json()).unwrap_or_default());
        }
    }
});
