#![no_main]
//! Coverage-guided search over the operation language. The bytes decode
//! (totally) to a configuration + operation sequence, which is executed
//! against the reference model with all tagged oracles; the target panics
//! only for a failure of the property named by VERIF_PROP that is not a
//! listed known finding.

use std::sync::{Mutex, OnceLock};

use libfuzzer_sys::fuzz_target;
use lruverif::ops::Case;
use lruverif::runner::{self, Accum, Known, Verdict};

#[global_allocator]
static GLOBAL: lruverif::alloc::VAlloc = lruverif::alloc::VAlloc;

struct State {
    prop: &'static str,
    known: Vec<Known>,
    acc: Accum,
    stats_file: Option<String>,
}

static STATE: OnceLock<Mutex<State>> = OnceLock::new();

fn state() -> &'static Mutex<State> {
    STATE.get_or_init(|| {
        lruverif::detect_alloc();
        lruverif::tracked::install_panic_hook(false);
        let prop = std::env::var("VERIF_PROP").ok().and_then(|p| runner::static_prop(&p)).unwrap_or("C07");
        let root = std::env::var("VERIF_ROOT").unwrap_or_else(|_| "/verif".into());
        let known = runner::load_known(std::path::Path::new(&root));
        let stats_file = std::env::var("VERIF_FUZZ_STATS").ok().map(|p| format!("{}.{}", p, std::process::id()));
        Mutex::new(State { prop, known, acc: Accum::default(), stats_file })
    })
}

fuzz_target!(|data: &[u8]| {
    let case = Case::from_bytes(data);
    let mut st = state().lock().unwrap_or_else(|e| e.into_inner());
    let prop = st.prop;
    let out = runner::run_case(&case, Some(prop), false);
    match runner::judge(&out.fails, prop, &st.known) {
        Verdict::Pass => st.acc.add_case(prop, &out.stats, || runner::sample_text(&case)),
        Verdict::Known(sig) => { st.acc.cases += 1; *st.acc.known.entry(sig).or_insert(0) += 1; },
        Verdict::Foreign(sig) => { st.acc.cases += 1; *st.acc.foreign.entry(sig).or_insert(0) += 1; },
        Verdict::Violation(f) => {
            let text = runner::replay_text(prop, &case, Some(&f), &[]);
            eprintln!("VERIF-FUZZ-VIOLATION property={} sig={} : {}\n{}", prop, f.sig, f.msg, text);
            drop(st);
            panic!("property {} violated: [{}] {}", prop, f.sig, f.msg);
        },
    }
    if st.acc.cases % 2000 == 0 {
        if let Some(p) = &st.stats_file {
            let _ = std::fs::write(p, serde_json::to_string(&st.acc.to_json()).unwrap_or_default());
        }
    }
});
