//! The interpreter: applies one operation to the cache and to the reference
//! model and runs the tagged oracles. See `steps.rs` for the per-operation
//! semantics; this file holds the world, the observation and the shared
//! oracles.

use std::collections::{BTreeMap, BTreeSet, HashMap};

use lru_mem::LruCache;

use crate::hashers::{HKind, VHasher};
use crate::model::{Ent, Model};
use crate::ops::*;
use crate::tracked::{self, Cb, Owner, St, TKey, TVal, NCB};

pub type Cache = LruCache<TKey, TVal, VHasher>;

#[derive(Clone, Debug)]
pub struct Failure {
    pub tags: Vec<&'static str>,
    /// structural signature (for known-finding matching and distinctness)
    pub sig: String,
    pub msg: String,
    pub step: usize,
}

impl Failure {
    pub fn has(&self, tag: &str) -> bool {
        self.tags.iter().any(|t| *t == tag)
    }
}

#[derive(Clone, Debug, PartialEq, Eq)]
pub struct Item {
    pub k: u16,
    pub key_id: u64,
    pub val_id: u64,
    pub kheap: usize,
    pub vheap: usize,
    pub tag: u32,
    pub kaddr: usize,
    pub vaddr: usize,
}

impl Item {
    fn content(&self) -> (u16, u64, u64, usize, usize, u32) {
        (self.k, self.key_id, self.val_id, self.kheap, self.vheap, self.tag)
    }
}

#[derive(Clone, Debug, PartialEq, Eq, Default)]
pub struct Obs {
    pub items: Vec<Item>,
    pub sizes: Vec<usize>,
    pub len: usize,
    pub cur: usize,
    pub max: usize,
    pub cap: usize,
}

impl Obs {
    pub fn same_content(&self, other: &Obs) -> bool {
        self.len == other.len && self.cur == other.cur && self.max == other.max
            && self.sizes == other.sizes
            && self.items.len() == other.items.len()
            && self.items.iter().zip(&other.items).all(|(a, b)| a.content() == b.content())
    }

    pub fn keys(&self) -> Vec<u16> {
        self.items.iter().map(|i| i.k).collect()
    }
}

pub struct Side {
    pub cache: Option<Cache>,
    pub model: Model,
    pub peak_len: usize,
    /// largest capacity that was explicitly asked for so far (as a
    /// hashbrown capacity, i.e. already rounded by `fresh`)
    pub requested_cap: usize,
    /// with_capacity(n) tracking: (n, capacity at creation, fresh inserts so
    /// far); dropped at the first removal / capacity operation
    pub wc_track: Option<(usize, usize, usize)>,
    pub last_obs: Obs,
    pub last_fp: Vec<usize>,
    /// a callback unwound in the middle of a mutate: recorded sizes may differ
    /// from re-measured ones for these keys
    pub desynced: BTreeSet<u16>,
    /// entries of a clone whose values measure less than what was recorded
    /// for their originals (spare capacity is not cloned): recorded >= measured
    pub shrunk: BTreeSet<u16>,
}

impl Side {
    pub fn cache(&self) -> &Cache {
        self.cache.as_ref().expect("side has a cache")
    }

    pub fn cache_mut(&mut self) -> &mut Cache {
        self.cache.as_mut().expect("side has a cache")
    }
}

#[derive(Default, Clone, Debug)]
pub struct CaseStats {
    pub steps: u64,
    pub events: BTreeMap<&'static str, u64>,
    /// property -> distinct non-trivial signatures seen in this case
    pub nt: HashMap<&'static str, BTreeSet<String>>,
    pub skipped: u64,
}

impl CaseStats {
    pub fn ev(&mut self, name: &'static str) {
        *self.events.entry(name).or_insert(0) += 1;
    }

    pub fn evn(&mut self, name: &'static str, n: u64) {
        *self.events.entry(name).or_insert(0) += n;
    }
}

#[derive(Clone, Copy, Debug, PartialEq, Eq)]
pub enum Level {
    Full,
    Light,
}

pub struct World {
    pub cfg: Config,
    pub sides: Vec<Side>,
    pub active: usize,
    pub e0: usize,
    pub step: usize,
    pub stats: CaseStats,
    pub pending_inject: Option<(Cb, u16, bool)>,
    pub leaks_allowed: bool,
    /// property the run is about (None: record everything)
    pub target: Option<&'static str>,
    pub fails: Vec<Failure>,
    pub fresh_memo: HashMap<usize, usize>,
    /// human-readable trace of resolved operations (bounded)
    pub trace: Vec<String>,
    pub trace_on: bool,
    pub alloc_installed: bool,
    /// callback counts of the most recent cache operation
    pub last_counts: [u64; NCB],
    /// observation right after an injected panic: recorded sizes may be
    /// stale and the bound may be broken (both allowed by C16 for panics
    /// outside the closure); only structural promises are judged
    pub post_panic: bool,
    /// observation of a fresh clone: recorded sizes may exceed re-measured ones
    pub lenient_sizes: bool,
    /// failures of *other* properties met earlier in this case, after which the
    /// case went on from the observed state (see `resync_past_foreign`)
    pub foreign_first: Vec<Failure>,
    /// a destructor panicked earlier in this case: nothing that follows is
    /// C16's business (its statement enumerates the callbacks it covers)
    pub drop_panic_seen: bool,
    /// an iterator was forgotten earlier in this case
    pub forget_seen: bool,
    /// a panic injected into one of the callbacks C16 lists was caught earlier
    /// in this case: what follows is C16's "arbitrary further use"
    pub panic_seen: bool,
}

#[macro_export]
macro_rules! ck {
    ($w:expr, $cond:expr, [$($tag:expr),+], $sig:expr, $($fmt:tt)+) => {
        if !($cond) {
            $w.fail(vec![$($tag),+], $sig.to_string(), format!($($fmt)+));
        }
    };
}

pub const MAX_HEAP: usize = 1 << 40;
pub const GIANT_LIMIT: usize = 1 << 61;
pub const MAX_CAP_ARG: usize = 1 << 16;

impl World {
    pub fn new(cfg: &Config, target: Option<&'static str>) -> World {
        tracked::reset();
        crate::hashers::reset_clones();
        let e0 = {
            let k = TKey::new(0, 0);
            let v = TVal::new(0, 0);
            lru_mem::entry_size(&k, &v)
        };
        tracked::reset();
        let mut w = World {
            cfg: cfg.clone(),
            sides: Vec::new(),
            active: 0,
            e0,
            step: 0,
            stats: CaseStats::default(),
            pending_inject: None,
            leaks_allowed: false,
            target,
            fails: Vec::new(),
            fresh_memo: HashMap::new(),
            trace: Vec::new(),
            trace_on: false,
            alloc_installed: crate::alloc_installed(),
            last_counts: [0; NCB],
            post_panic: false,
            lenient_sizes: false,
            foreign_first: Vec::new(),
            drop_panic_seen: false,
            forget_seen: false,
            panic_seen: false,
        };
        let limit = w.resolve_limit_initial(&cfg.limit);
        let side = w.new_side(limit, cfg.capacity.map(|c| c as usize));
        w.sides.push(side);
        w
    }

    pub fn want(&self, prop: &'static str) -> bool {
        match self.target {
            None => true,
            Some(t) => t == prop,
        }
    }

    pub fn nontrivial(&mut self, prop: &'static str, sig: String) {
        if self.want(prop) {
            self.stats.nt.entry(prop).or_default().insert(sig);
        }
    }

    pub fn fail(&mut self, mut tags: Vec<&'static str>, sig: String, msg: String) {
        if self.drop_panic_seen {
            tags.retain(|t| *t != "C16" && (*t != "C17" || self.forget_seen));
            if tags.is_empty() { tags.push("C07"); }
        }
        else if self.panic_seen && !tags.contains(&"C16") && (tags.contains(&"C07") || tags.contains(&"C06")) {
            // memory safety, coherence of traversal and lookups, ownership: what C16
            // promises for the use of a cache after a caught panic
            tags.push("C16");
        }
        self.fails.push(Failure { tags, sig, msg, step: self.step });
    }

    pub fn hkind(&self) -> HKind {
        self.cfg.hasher
    }

    /// C01 and C03 are stated in terms of the *true* sizes of what is held
    /// ("makes everything fit"). A change that corrupts the bookkeeping first
    /// trips an accounting oracle (C02) and only later, and because of it,
    /// evicts too much or too little. For these two targets a case therefore
    /// does not end at a failure that carries another property's tag: the model
    /// is rebuilt from what the cache shows (contents, order, re-measured
    /// sizes, limit) and the case goes on; only a failure carrying the target's
    /// tag is reported. Returns false if the case cannot go on.
    pub fn resync_past_foreign(&mut self) -> bool {
        let target = match self.target { Some(t) if t == "C01" || t == "C03" => t, _ => return false };
        if self.fails.iter().any(|f| f.has(target)) || self.sides.len() != 1 {
            return false;
        }
        let earlier = std::mem::take(&mut self.fails);
        if self.foreign_first.is_empty() {
            self.foreign_first = earlier;
        }
        self.leaks_allowed = true;
        self.pending_inject = None;
        let _ = tracked::take_vios();
        let obs = self.observe_side(self.active, Level::Full, false);
        // what this observation finds for other properties is the same story again
        self.fails.retain(|f| f.has(target));
        let obs = match obs {
            Some(o) if self.fails.is_empty() => o,
            _ => return false,
        };
        self.stats.ev("continued-past-foreign");
        let e0 = self.e0;
        // nothing is marked as legitimately out of sync: the oracles stated in
        // true sizes stay on
        let desync = BTreeSet::new();
        let ents: Vec<Ent> = obs.items.iter().map(|it| {
            let measured = e0 + it.kheap + it.vheap;
            Ent { k: it.k, key_id: it.key_id, val_id: it.val_id, kheap: it.kheap, vheap: it.vheap, tag: it.tag, size: measured }
        }).collect();
        let listed: BTreeSet<u64> = ents.iter().flat_map(|e| [e.key_id, e.val_id]).collect();
        for e in self.side().model.order.clone() {
            for id in [e.key_id, e.val_id] {
                if !listed.contains(&id) { tracked::set_leak_ok(id); }
            }
        }
        let max = obs.max;
        let fp = self.side().cache().verif_fingerprint();
        let peak = obs.len;
        let cap = obs.cap;
        let f = self.fresh(cap);
        let side = self.side_mut();
        side.model.replace_all(ents);
        side.model.limit = max;
        side.desynced = desync;
        side.shrunk.clear();
        side.wc_track = None;
        side.last_obs = obs;
        side.last_fp = fp;
        side.peak_len = side.peak_len.max(peak);
        side.requested_cap = side.requested_cap.max(f);
        true
    }

    /// Capacity hashbrown gives an empty table for request `r`, obtained
    /// from hashbrown itself.
    pub fn fresh(&mut self, r: usize) -> usize {
        if let Some(&c) = self.fresh_memo.get(&r) {
            return c;
        }
        let c = hashbrown::raw::RawTable::<()>::with_capacity(r).capacity();
        self.fresh_memo.insert(r, c);
        c
    }

    fn resolve_limit_initial(&self, l: &LimSel) -> usize {
        match *l {
            LimSel::Zero => 0,
            LimSel::Abs(n) => n as usize,
            LimSel::CurPlus(d) => (d.max(0)) as usize,
            LimSel::KeepMru(n, d) => (n as usize * self.e0).saturating_add_signed(d as isize),
            LimSel::Ents(n, d) => (n as usize * self.e0).saturating_add_signed(d as isize),
            LimSel::Max => usize::MAX,
            LimSel::MaxMinus(d) => usize::MAX - d as usize,
            LimSel::Pow(e, d) => (1usize << e.min(63)).saturating_add_signed(d as isize),
            LimSel::ThreeQuarters(d) => ((1usize << 63) + (1usize << 62)).saturating_add_signed(d as isize),
        }
    }

    pub fn new_side(&mut self, limit: usize, capacity: Option<usize>) -> Side {
        let hasher = VHasher::new(self.cfg.hasher);
        let cache = match capacity {
            None => LruCache::with_hasher(limit, hasher),
            Some(c) => LruCache::with_capacity_and_hasher(limit, c, hasher),
        };
        let cap0 = cache.capacity();
        let requested = match capacity {
            None => 0,
            Some(c) => self.fresh(c),
        };
        let mut side = Side {
            cache: Some(cache),
            model: Model::new(limit, self.cfg.universe as usize),
            peak_len: 0,
            requested_cap: requested.max(cap0),
            wc_track: capacity.map(|c| (c, cap0, 0)),
            last_obs: Obs::default(),
            last_fp: Vec::new(),
            desynced: BTreeSet::new(),
            shrunk: BTreeSet::new(),
        };
        side.last_fp = side.cache().verif_fingerprint();
        side.last_obs = Obs {
            items: vec![], sizes: vec![], len: 0, cur: 0, max: limit, cap: cap0,
        };
        side
    }

    pub fn side(&self) -> &Side {
        &self.sides[self.active]
    }

    pub fn side_mut(&mut self) -> &mut Side {
        let a = self.active;
        &mut self.sides[a]
    }

    // ------------------------------------------------------ selectors

    pub fn resolve_key(&self, sel: &KeySel) -> u16 {
        let m = &self.side().model;
        let u = self.cfg.universe;
        match *sel {
            KeySel::Lru => m.order.first().map(|e| e.k).unwrap_or(0),
            KeySel::Mru => m.order.last().map(|e| e.k).unwrap_or(0),
            KeySel::Nth(i) => {
                if m.order.is_empty() {
                    i % u
                }
                else {
                    m.order[(i as usize * m.len()) >> 16].k
                }
            },
            KeySel::Absent(j) => m.absent(j, u).unwrap_or(j % u),
            KeySel::Raw(k) => k % u,
        }
    }

    /// Resolves a size selector to a value heap size for key `k` with key
    /// heap `kheap`. `own`: the recorded size of the entry that is replaced
    /// (insert) or mutated, which is credited to the free space.
    pub fn resolve_vheap(&self, sel: &SizeSel, k: u16, kheap: usize, credit_own: bool) -> usize {
        let m = &self.side().model;
        let base = self.e0 + kheap;
        let own = if credit_own { m.get(k).map(|e| e.size).unwrap_or(0) } else { 0 };
        let free = (m.limit - m.total().min(m.limit)).saturating_add(own);
        let target: usize = match *sel {
            SizeSel::Zero => base,
            SizeSel::Abs(n) => base + n as usize,
            SizeSel::FreePlus(d) => free.saturating_add_signed(d as isize),
            SizeSel::MaxPlus(d) => m.limit.saturating_add_signed(d as isize),
            SizeSel::NeedEvict(n, d) => {
                let extra: usize = m.order.iter().filter(|e| e.k != k)
                    .take(n as usize).fold(0usize, |a, e| a.saturating_add(e.size));
                free.saturating_add(extra).saturating_add_signed(d as isize)
            },
            SizeSel::Frac(k, d) => (m.limit >> k.min(8)).saturating_add_signed(d as isize),
        };
        // "real" sizes up to 2^40 per entry; with a limit beyond 2^61 (which no
        // real memory backs anyway) the cap is lifted, so that entries of the
        // limit's own magnitude are exercised: every sum the cache has to form
        // there still fits a usize (see do_mutate for the one exclusion)
        let cap = if m.limit > GIANT_LIMIT { usize::MAX } else { MAX_HEAP };
        target.saturating_sub(base).min(cap)
    }

    pub fn resolve_limit(&self, l: &LimSel) -> usize {
        let m = &self.side().model;
        match *l {
            LimSel::Zero => 0,
            LimSel::Abs(n) => n as usize,
            LimSel::CurPlus(d) => m.total().saturating_add_signed(d as isize),
            LimSel::KeepMru(n, d) => {
                let s: usize = m.order.iter().rev().take(n as usize).fold(0usize, |a, e| a.saturating_add(e.size));
                s.saturating_add_signed(d as isize)
            },
            LimSel::Ents(n, d) => (n as usize * self.e0).saturating_add_signed(d as isize),
            LimSel::Max => usize::MAX,
            LimSel::MaxMinus(d) => usize::MAX - d as usize,
            LimSel::Pow(e, d) => (1usize << e.min(63)).saturating_add_signed(d as isize),
            LimSel::ThreeQuarters(d) => ((1usize << 63) + (1usize << 62)).saturating_add_signed(d as isize),
        }
    }

    pub fn resolve_cap(&self, a: &CapArg) -> usize {
        let s = self.side();
        let len = s.model.len();
        let cap = s.cache().capacity();
        match *a {
            CapArg::Zero => 0,
            CapArg::Abs(n) => n as usize,
            CapArg::LenPlus(d) => len.saturating_add_signed(d as isize),
            CapArg::CapPlus(d) => cap.saturating_add_signed(d as isize),
            CapArg::Pow2Plus(e, d) => (1usize << (e % 17)).saturating_add_signed(d as isize),
            CapArg::Max => usize::MAX,
            CapArg::MaxDiv => usize::MAX / self.e0,
        }
    }

    // --------------------------------------------------- observation

    /// Observes the active side through `&self` methods only and runs the
    /// state oracles. Returns None when the structure walk failed (the
    /// list must not be traversed then).
    pub fn observe(&mut self, level: Level) -> Option<Obs> {
        let idx = self.active;
        self.observe_side(idx, level, true)
    }

    pub fn observe_side(&mut self, idx: usize, level: Level, against_model: bool) -> Option<Obs> {
        let structure = self.sides[idx].cache().verif_structure();
        let structure = match structure {
            Ok(s) => s,
            Err(e) => {
                self.fail(vec!["C07", "C16", "C17"], "structure".to_string(),
                    format!("structure walk failed: {}", e));
                return None;
            }
        };
        let mut fails: Vec<(Vec<&'static str>, String, String)> = Vec::new();
        let obs;
        {
            let side = &self.sides[idx];
            let cache = side.cache();
            let mut items: Vec<Item> = Vec::with_capacity(structure.addrs.len());
            for (k, v) in cache.iter() {
                items.push(Item {
                    k: k.k, key_id: k.id, val_id: v.id, kheap: k.heap, vheap: v.measured(), tag: v.tag,
                    kaddr: k as *const TKey as usize, vaddr: v as *const TVal as usize,
                });
                if items.len() > structure.addrs.len() + 2 {
                    break;
                }
            }
            let len = cache.len();
            let cur = cache.current_size();
            let max = cache.max_size();
            let cap = cache.capacity();

            if items.len() != len {
                fails.push((vec!["C02", "C07", "C12"], "iter-len".into(),
                    format!("iter() yields {} items but len() is {}", items.len(), len)));
            }
            if cache.is_empty() != (len == 0) {
                fails.push((vec!["C02"], "is-empty".into(),
                    format!("is_empty() = {} but len() = {}", cache.is_empty(), len)));
            }
            if (cur == 0) != (len == 0) {
                fails.push((vec!["C02"], "zero-size".into(),
                    format!("current_size() = {} but len() = {}", cur, len)));
            }
            if cur > max && !self.post_panic {
                fails.push((vec!["C01"], "bound".into(),
                    format!("current_size() = {} exceeds max_size() = {}", cur, max)));
            }

            // reverse traversal mirrors
            let mut rev: Vec<(u64, u64)> = Vec::with_capacity(items.len());
            for (k, v) in cache.iter().rev() {
                rev.push((k.id, v.id));
                if rev.len() > items.len() + 2 {
                    break;
                }
            }
            rev.reverse();
            let fwd: Vec<(u64, u64)> = items.iter().map(|i| (i.key_id, i.val_id)).collect();
            if rev != fwd {
                fails.push((vec!["C07", "C05", "C12"], "mirror".into(),
                    format!("iter().rev() is not the mirror image of iter(): fwd {:?} rev(reversed) {:?}",
                        brief(&fwd), brief(&rev))));
            }

            if level == Level::Full {
                let ks: Vec<u64> = cache.keys().map(|k| k.id).collect();
                let vs: Vec<u64> = cache.values().map(|v| v.id).collect();
                if ks != items.iter().map(|i| i.key_id).collect::<Vec<_>>()
                    || vs != items.iter().map(|i| i.val_id).collect::<Vec<_>>() {
                    fails.push((vec!["C05", "C12"], "keys-values".into(),
                        "keys()/values() disagree with iter()".into()));
                }
                let lru = cache.peek_lru().map(|(k, v)| (k.id, v.id));
                let mru = cache.peek_mru().map(|(k, v)| (k.id, v.id));
                if lru != fwd.first().copied() || mru != fwd.last().copied() {
                    fails.push((vec!["C05"], "peek-ends".into(),
                        format!("peek_lru/peek_mru = {:?}/{:?} but iteration ends are {:?}/{:?}",
                            lru, mru, fwd.first(), fwd.last())));
                }
            }

            // uniqueness of keys
            {
                let mut seen = BTreeSet::new();
                for it in &items {
                    if !seen.insert(it.k) {
                        fails.push((vec!["C04"], "dup-key".into(),
                            format!("key {} is listed twice", it.k)));
                        break;
                    }
                }
            }

            // every traversed entry is the very entry a lookup finds
            let n = items.len();
            let stride = if level == Level::Full && n <= 96 { 1 } else { (n / 24).max(1) };
            let mut i = 0;
            let mut q = TKey::new(0, 0);
            while i < n {
                let it = &items[i];
                q.k = it.k;
                match cache.peek_entry(&q) {
                    Some((k, v)) => {
                        if k as *const TKey as usize != it.kaddr || v as *const TVal as usize != it.vaddr {
                            fails.push((vec!["C07", "C04"], "lookup-other-entry".into(),
                                format!("peek_entry({}) finds a different entry than the traversal", it.k)));
                        }
                    },
                    None => fails.push((vec!["C07", "C04"], "lookup-missing".into(),
                        format!("traversed key {} is not found by peek_entry", it.k))),
                }
                i += stride;
            }
            drop(q);

            // recorded sizes vs. re-measured sizes, totals
            let mut sum_measured = 0u128;
            let mut sum_recorded = 0u128;
            for (i, it) in items.iter().enumerate() {
                let measured = self.e0 + it.kheap + it.vheap;
                sum_measured += measured as u128;
                if let Some(&rec) = structure.sizes.get(i) {
                    sum_recorded += rec as u128;
                    if rec != measured && !side.desynced.contains(&it.k) && !self.post_panic
                        && !((self.lenient_sizes || side.shrunk.contains(&it.k)) && rec > measured) {
                        fails.push((vec!["C02"], "recorded-size".into(),
                            format!("entry {} has recorded size {} but entry_size(key, value) is {}",
                                it.k, rec, measured)));
                    }
                }
            }
            if side.desynced.is_empty() && side.shrunk.is_empty() && !self.post_panic && !self.lenient_sizes {
                if sum_measured != cur as u128 {
                    fails.push((vec!["C02"], "sum".into(),
                        format!("current_size() = {} but the sum of entry_size over iter() is {}",
                            cur, sum_measured)));
                }
                if sum_measured > max as u128 {
                    fails.push((vec!["C01"], "true-bound".into(),
                        format!("sum of entry_size over iter() = {} exceeds max_size() = {}",
                            sum_measured, max)));
                }
            }
            if sum_recorded != cur as u128 {
                fails.push((vec!["C02", "C16"], "sum-recorded".into(),
                    format!("current_size() = {} but recorded sizes sum to {}", cur, sum_recorded)));
            }

            // liveness / ownership of everything the cache lists
            for it in &items {
                for (id, what) in [(it.key_id, "key"), (it.val_id, "value")] {
                    match tracked::obj(id) {
                        Some(o) if o.st == St::Live && o.owner == Owner::Cache => { },
                        Some(o) => fails.push((vec!["C06", "C17", "C16"], "listed-not-owned".into(),
                            format!("cache lists {} id {} which is {:?}/{:?}", what, id, o.st, o.owner))),
                        None => fails.push((vec!["C06", "C07"], "listed-unknown".into(),
                            format!("cache lists {} with unknown id {}", what, id))),
                    }
                }
            }

            obs = Obs { items, sizes: structure.sizes.clone(), len, cur, max, cap };
        }
        for (t, s, m) in fails {
            self.fail(t, s, m);
        }

        if against_model {
            self.compare_with_model(idx, &obs);
        }
        Some(obs)
    }

    fn compare_with_model(&mut self, idx: usize, obs: &Obs) {
        let (same_set, same_order, detail) = {
            let m = &self.sides[idx].model;
            let mk: Vec<(u16, u64, u64)> = m.order.iter().map(|e| (e.k, e.key_id, e.val_id)).collect();
            let ok: Vec<(u16, u64, u64)> = obs.items.iter().map(|i| (i.k, i.key_id, i.val_id)).collect();
            let mut ms = mk.clone();
            ms.sort();
            let mut os = ok.clone();
            os.sort();
            let detail = if ms != os || mk != ok {
                format!("model (k,key_id,val_id) LRU->MRU {:?}; cache {:?}", brief(&mk), brief(&ok))
            } else { String::new() };
            (ms == os, mk == ok, detail)
        };
        if !same_set {
            self.fail(vec!["C04"], "contents".into(), format!("contents differ from the sequential map: {}", detail));
        }
        else if !same_order {
            self.fail(vec!["C05"], "order".into(), format!("recency order differs: {}", detail));
        }
        else {
            let mut bad = None;
            {
                let m = &self.sides[idx].model;
                for (i, e) in m.order.iter().enumerate() {
                    let it = &obs.items[i];
                    if it.kheap != e.kheap || it.vheap != e.vheap || it.tag != e.tag {
                        bad = Some((vec!["C04", "C11"], "payload".to_string(),
                            format!("entry {} payload (kheap,vheap,tag) = ({},{},{}) but model has ({},{},{})",
                                e.k, it.kheap, it.vheap, it.tag, e.kheap, e.vheap, e.tag)));
                        break;
                    }
                    if obs.sizes.get(i).copied() != Some(e.size) {
                        bad = Some((vec!["C02", "C11", "C14"], "model-size".to_string(),
                            format!("entry {} recorded size {:?} but model has {}", e.k, obs.sizes.get(i), e.size)));
                        break;
                    }
                }
            }
            if let Some((t, s, m)) = bad {
                self.fail(t, s, m);
            }
        }
        let limit = self.sides[idx].model.limit;
        if obs.max != limit {
            self.fail(vec!["C01"], "limit".into(), format!("max_size() = {} but the limit is {}", obs.max, limit));
        }
    }

    /// Registry violations recorded since the last call become failures.
    pub fn collect_vios(&mut self, ctx: &str) {
        for v in tracked::take_vios() {
            let tags: Vec<&'static str> = match v.kind {
                tracked::VioKind::DoubleDrop => vec!["C06", "C12", "C16", "C17"],
                tracked::VioKind::UseAfterDrop => vec!["C07", "C06", "C16", "C17"],
                tracked::VioKind::UseAfterMoveOut => vec!["C07", "C06", "C16", "C17"],
                tracked::VioKind::UnknownId => vec!["C07", "C16", "C17"],
            };
            self.fail(tags, format!("{:?}", v.kind), format!("{} ({})", v.describe(), ctx));
        }
    }

    /// Takes ownership of a key the cache handed back.
    pub fn take_key(&mut self, k: TKey, ctx: &str) {
        self.take_id(k.id, "key", ctx);
        if tracked::obj(k.id).map(|o| o.st) == Some(St::Dropped) {
            std::mem::forget(k);
        }
    }

    pub fn take_val(&mut self, v: TVal, ctx: &str) {
        self.take_id(v.id, "value", ctx);
        if tracked::obj(v.id).map(|o| o.st) == Some(St::Dropped) {
            std::mem::forget(v);
        }
    }

    fn take_id(&mut self, id: u64, what: &str, ctx: &str) {
        match tracked::obj(id) {
            Some(o) if o.st == St::Live && o.owner == Owner::Cache => {
                tracked::set_owner(id, Owner::Harness);
            },
            Some(o) => self.fail(vec!["C06", "C12", "C17"], "handed-back-twice".into(),
                format!("{} id {} handed back by {} is {:?}/{:?} (already dropped or already handed back)",
                    what, id, ctx, o.st, o.owner)),
            None => self.fail(vec!["C06", "C07"], "handed-back-unknown".into(),
                format!("{} with unknown id {} handed back by {}", what, id, ctx)),
        }
    }

    /// Every entry that left the model and was not handed to the harness
    /// must have been dropped by now.
    pub fn expect_dropped(&mut self, ents: &[Ent], tags: Vec<&'static str>, ctx: &str) {
        for e in ents {
            for (id, what) in [(e.key_id, "key"), (e.val_id, "value")] {
                match tracked::obj(id) {
                    Some(o) if o.st == St::Dropped => { },
                    Some(o) if o.owner == Owner::Harness => { },
                    _ => {
                        let t = tags.clone();
                        self.fail(t, "not-dropped".into(),
                            format!("{} id {} of departed entry {} was neither dropped nor handed back ({})",
                                what, id, e.k, ctx));
                    }
                }
            }
        }
    }

    /// Evicted entries are dropped oldest first: every part of an earlier
    /// victim is dropped before any part of a later one.
    pub fn expect_evicted_in_order(&mut self, ents: &[Ent], ctx: &str) {
        let mut last_max = 0u64;
        let mut last_k = 0u16;
        for (i, e) in ents.iter().enumerate() {
            let seqs: Vec<u64> = [e.key_id, e.val_id].iter()
                .filter_map(|id| tracked::obj(*id)).filter(|o| o.st == St::Dropped).map(|o| o.drop_seq).collect();
            if seqs.len() != 2 {
                return;
            }
            let (mn, mx) = (*seqs.iter().min().unwrap(), *seqs.iter().max().unwrap());
            if i > 0 && mn < last_max {
                self.fail(vec!["C03"], "evicted-out-of-order".into(),
                    format!("{}: entry {} (more recently used) was dropped before entry {} (older); eviction must go oldest first", ctx, e.k, last_k));
                return;
            }
            last_max = mx;
            last_k = e.k;
        }
    }

    pub fn log(&mut self, s: String) {
        if self.trace_on && self.trace.len() < 20000 {
            self.trace.push(s);
        }
    }

    /// End of a case: drop everything, then look for leaks and late
    /// registry violations.
    pub fn finish(&mut self) {
        let sides = std::mem::take(&mut self.sides);
        let r = std::panic::catch_unwind(std::panic::AssertUnwindSafe(move || drop(sides)));
        if let Err(p) = r {
            let msg = tracked::panic_message(&*p);
            self.fail(vec!["C06", "C07"], "panic-in-drop".into(), format!("dropping the cache panicked: {}", msg));
        }
        self.collect_vios("dropping the caches");
        if !self.leaks_allowed {
            let live = tracked::live_ids();
            let leaked: Vec<u64> = live.iter().filter(|(_, o)| !o.leak_ok).map(|(i, _)| *i).collect();
            if !leaked.is_empty() {
                self.fail(vec!["C06"], "leak".into(),
                    format!("{} objects were never dropped nor handed back, e.g. ids {:?}",
                        leaked.len(), &leaked[..leaked.len().min(8)]));
            }
        }
    }
}

pub fn brief<T: std::fmt::Debug>(v: &[T]) -> String {
    if v.len() <= 24 {
        format!("{:?}", v)
    }
    else {
        format!("{:?} ... ({} items) ... {:?}", &v[..10], v.len(), &v[v.len() - 10..])
    }
}
