//! `World::step`: one operation of the language, end to end.

use std::collections::BTreeSet;

use lru_mem::{InsertError, MutateError, TryInsertError};

use crate::ck;
use crate::interp::*;
use crate::model::Ent;
use crate::ops::*;
use crate::steps::*;
use crate::tracked::{self, Cb, TKey, TVal};

/// What a lookup-style call returned, reduced to identities.
#[derive(Debug, PartialEq, Eq, Clone, Copy)]
enum Found {
    None,
    Val(u64),
    Pair(u64, u64),
    Bool(bool),
    Unit,
}

impl World {
    pub fn step(&mut self, op: &Op) {
        self.step += 1;
        if !self.fails.is_empty() {
            return;
        }
        match op {
            Op::Insert { key, kheap, size } => {
                let k = self.resolve_key(key);
                let vheap = self.resolve_vheap(size, k, *kheap as usize, true);
                let cls = size.class();
                self.do_insert(k, *kheap as usize, vheap, Level::Full, cls);
            },
            Op::TryInsert { key, kheap, size } => {
                let k = self.resolve_key(key);
                let vheap = self.resolve_vheap(size, k, *kheap as usize, false);
                self.do_try_insert(k, *kheap as usize, vheap, size.class());
            },
            Op::Get { key, form } => self.do_lookup("get", key, *form),
            Op::GetEntry { key, form } => self.do_lookup("get_entry", key, *form),
            Op::Touch { key, form } => self.do_lookup("touch", key, *form),
            Op::Peek { key, form } => self.do_lookup("peek", key, *form),
            Op::PeekEntry { key, form } => self.do_lookup("peek_entry", key, *form),
            Op::Contains { key, form } => self.do_lookup("contains", key, *form),
            Op::GetLru => self.do_end("get_lru"),
            Op::PeekLru => self.do_end("peek_lru"),
            Op::PeekMru => self.do_end("peek_mru"),
            Op::Remove { key, form } => self.do_remove("remove", Some((key, *form)), Level::Full),
            Op::RemoveEntry { key, form } => self.do_remove("remove_entry", Some((key, *form)), Level::Full),
            Op::RemoveLru => self.do_remove("remove_lru", None, Level::Full),
            Op::RemoveMru => self.do_remove("remove_mru", None, Level::Full),
            Op::Mutate { key, form, size } => self.do_mutate(key, *form, size),
            Op::SetMaxSize(l) => self.do_set_max_size(l),
            Op::Retain { mask, by_key } => self.do_retain(*mask, *by_key),
            Op::Clear => self.do_clear(),
            Op::Reserve(a) => self.do_capacity("reserve", Some(a), false),
            Op::TryReserve { arg, fail_alloc } => self.do_capacity("try_reserve", Some(arg), *fail_alloc),
            Op::ShrinkTo(a) => self.do_capacity("shrink_to", Some(a), false),
            Op::ShrinkToFit => self.do_capacity("shrink_to_fit", None, false),
            Op::IterWalk { kind, calls, rest, fate } => self.do_iterwalk(*kind, calls, *rest, *fate),
            Op::Debug => self.do_debug(),
            Op::Clone(mode) => self.do_clone(*mode),
            Op::Scalars => self.do_scalars(),
            Op::InsertMany { count, vheap } => {
                self.pending_inject = None;
                let mut j = 0u16;
                for _ in 0..*count {
                    if !self.fails.is_empty() {
                        break;
                    }
                    let k = match self.side().model.absent(j, self.cfg.universe) {
                        Some(k) => k,
                        None => break,
                    };
                    j = k.wrapping_add(1);
                    self.do_insert(k, 0, *vheap as usize, Level::Light, "abs");
                }
                self.full_check("insert_many");
            },
            Op::Churn { rounds, which } => {
                self.pending_inject = None;
                let mut j = (self.step as u16).wrapping_mul(7);
                for r in 0..*rounds {
                    if !self.fails.is_empty() || self.side().model.len() == 0 {
                        break;
                    }
                    self.light_remove(*which, r);
                    if !self.fails.is_empty() {
                        break;
                    }
                    let k = match self.side().model.absent(j, self.cfg.universe) {
                        Some(k) => k,
                        None => break,
                    };
                    j = k.wrapping_add(1);
                    self.do_insert(k, 0, 0, Level::Light, "zero");
                }
                if *rounds >= 200 {
                    let h = self.hkind().class();
                    self.nontrivial("C13", format!("churn|{}|{}", which % 3, h));
                }
                self.full_check("churn");
            },
            Op::Side(n) => {
                self.active = *n as usize % self.sides.len();
                self.log(format!("side -> {}", self.active));
            },
            Op::Inject { cb, nth, late } => {
                self.pending_inject = Some((*cb, (*nth).max(1), *late));
            },
        }
    }

    /// Full observation with no pre/post relation (after composite ops).
    fn full_check(&mut self, name: &'static str) {
        if !self.fails.is_empty() {
            return;
        }
        self.collect_vios(name);
        if let Some(obs) = self.observe(Level::Full) {
            let fp = self.side().cache().verif_fingerprint();
            let s = self.side_mut();
            s.last_obs = obs;
            s.last_fp = fp;
        }
    }

    fn injected(&self) -> Option<(Cb, u16, bool)> {
        self.pending_inject
    }

    // ------------------------------------------------------------ insert

    /// Bulk path (InsertMany / Churn): constant work per insertion — return
    /// value, model, evictions, scalars, growth target and hash count — and a
    /// full observation by the caller at the end.
    fn light_insert(&mut self, k: u16, vheap: usize) {
        self.pending_inject = None;
        let entry = self.e0 + vheap;
        let limit = self.side().model.limit;
        if entry > limit || self.side().model.contains(k) {
            // the bulk path only does plain fresh insertions
            self.do_insert_full(k, 0, vheap, Level::Full, "abs");
            return;
        }
        let tag = self.step as u32;
        let key = mk_key(k, 0);
        let val = mk_val(tag, vheap);
        let (kid, vid) = (key.id, val.id);
        give_to_cache(&key, &val);
        let tid = self.side().cache().verif_table_identity();
        let len_before = self.side().model.len();
        let run = self.run(&[], move |c| c.insert(key, val));
        if let Some(msg) = &run.panic {
            self.unexpected_panic("insert", msg);
            return;
        }
        self.stats.steps += 1;
        match run.ret.unwrap() {
            Ok(None) => { },
            Ok(Some(v)) => {
                self.fail(vec!["C04"], "insert-phantom-old".into(), format!("insert of absent key {} returned an old value (id {})", k, v.id));
                self.take_val(v, "insert (phantom)");
            },
            Err(InsertError::EntryTooLarge { key, value, .. }) => {
                self.fail(vec!["C10"], "insert-spurious-toolarge".into(), format!("insert of an entry of size {} failed although max_size is {}", entry, limit));
                self.take_key(key, "insert error");
                self.take_val(value, "insert error");
                return;
            },
        }
        let m = &mut self.side_mut().model;
        let evicted = m.evict_to(limit - entry);
        m.push(Ent { k, key_id: kid, val_id: vid, kheap: 0, vheap, tag, size: entry });
        self.expect_dropped(&evicted, vec!["C06"], "evicted by insert");
        self.expect_evicted_in_order(&evicted, "insert");
        self.collect_vios("insert");
        let (len, cur, cap, tid2) = {
            let c = self.side().cache();
            (c.len(), c.current_size(), c.capacity(), c.verif_table_identity())
        };
        let (ml, mt) = (self.side().model.len(), self.side().model.total());
        ck!(self, len == ml, ["C02", "C04"], "bulk-len", "after a bulk insert len() is {} but {} entries are held", len, ml);
        ck!(self, cur == mt, ["C02"], "bulk-size", "after a bulk insert current_size() is {} but entries sum to {}", cur, mt);
        ck!(self, cur <= limit, ["C01"], "bound", "current_size() = {} exceeds max_size() = {}", cur, limit);
        let rebuilt = tid2 != tid;
        let bound = 2 + evicted.len() as u64 + if rebuilt { len_before.max(len) as u64 } else { 0 };
        ck!(self, run.builds <= bound, ["C20"], "hashes:insert",
            "insert computed {} key hashes; bound is 2 + {} departed{} = {} (len {} -> {})", run.builds, evicted.len(),
            if rebuilt { " + held entries (table rebuilt)" } else { "" }, bound, len_before, len);
        if rebuilt {
            let want = self.fresh((2 * len.saturating_sub(1)).max(1));
            ck!(self, cap == want, ["C13"], "growth-size",
                "insertion grew the table to capacity {} with {} entries; the smallest table holding twice the {} previous entries has capacity {}",
                cap, len, len.saturating_sub(1), want);
            self.stats.ev("rebuild.growth");
        }
        let peak = self.side().peak_len.max(len);
        let requested = self.side().requested_cap;
        let doubled = self.fresh(2 * peak);
        ck!(self, cap <= doubled.max(requested).max(3), ["C13"], "cap-bound",
            "capacity {} exceeds what growth by doubling ({} for peak len {}) or explicit requests ({}) explain", cap, doubled, peak, requested);
        let s = self.side_mut();
        s.peak_len = peak;
        if !evicted.is_empty() {
            s.wc_track = None;
        }
        else if let Some((n, c0, f)) = s.wc_track {
            s.wc_track = Some((n, c0, f + 1));
            if f + 1 <= n && cap != c0 {
                self.fail(vec!["C13"], "with-capacity".into(),
                    format!("cache created with_capacity({}) changed capacity {} -> {} after {} fresh insertions", n, c0, cap, f + 1));
            }
        }
    }

    pub fn do_insert(&mut self, k: u16, kheap: usize, vheap: usize, level: Level, cls: &'static str) {
        if level == Level::Light && kheap == 0 {
            self.light_insert(k, vheap);
        }
        else {
            self.do_insert_full(k, kheap, vheap, level, cls);
        }
    }

    fn do_insert_full(&mut self, k: u16, kheap: usize, vheap: usize, level: Level, cls: &'static str) {
        let pre = self.pre();
        let inj = self.injected();
        let entry = self.e0 + kheap + vheap;
        let limit = self.side().model.limit;
        let total = self.side().model.total();
        let present = self.side().model.pos(k);
        let tag = self.step as u32;
        let key = mk_key(k, kheap);
        let val = mk_val(tag, vheap);
        let (kid, vid) = (key.id, val.id);
        give_to_cache(&key, &val);
        self.log(format!("insert k={} kheap={} vheap={} (entry {} limit {} total {})", k, kheap, vheap, entry, limit, total));

        let run = self.run(&[], move |c| c.insert(key, val));
        if let Some(msg) = &run.panic {
            if run.injected {
                let (cb, nth, _) = inj.unwrap();
                self.after_injected_panic(&pre, "insert", cb, nth, &BTreeSet::new(), false);
            }
            else {
                let credit = present.map(|i| self.side().model.order[i].size).unwrap_or(0);
                let evicting = entry <= limit && entry > limit - (total - credit).min(limit);
                self.unexpected_panic_ev("insert", msg, evicting);
            }
            return;
        }
        let mut info = Info { name: "insert", subject: Some(k), promoting: true, evicting: true,
            may_rebuild: true, is_insert: true, incoming: Some(entry), ..Info::default() };

        // classification for C01 / C10
        let credit = present.map(|i| self.side().model.order[i].size).unwrap_or(0);
        if entry > limit - (total - credit).min(limit) || entry > limit {
            let h = self.hkind().class();
            self.nontrivial("C01", format!("insert|{}|{}", h, cls));
        }

        match run.ret.unwrap() {
            Err(InsertError::EntryTooLarge { key, value, entry_size, max_size }) => {
                ck!(self, entry > limit, ["C10"], "insert-spurious-toolarge",
                    "insert of an entry of size {} failed with EntryTooLarge although max_size is {}", entry, limit);
                ck!(self, key.id == kid && value.id == vid, ["C10"], "insert-err-identity",
                    "EntryTooLarge returned key/value ids {}/{} but {}/{} were passed", key.id, value.id, kid, vid);
                ck!(self, entry_size == entry && max_size == limit, ["C10"], "insert-err-fields",
                    "EntryTooLarge reports entry_size {} max_size {} but actual are {} and {}", entry_size, max_size, entry, limit);
                self.take_key(key, "insert error");
                self.take_val(value, "insert error");
                info.unchanged = vec!["C10"];
                info.subject = None;
                info.promoting = false;
                info.evicting = false;
                info.incoming = None;
                if present.is_some() {
                    self.nontrivial("C10", "insert|toolarge+present".to_string());
                }
            },
            Ok(old) => {
                ck!(self, entry <= limit, ["C10", "C01"], "insert-accepted-toolarge",
                    "insert accepted an entry of size {} although max_size is {}", entry, limit);
                if entry > limit {
                    tracked::set_leak_ok(kid);
                    tracked::set_leak_ok(vid);
                    return;
                }
                // model
                let m = &mut self.side_mut().model;
                let replaced = present.map(|i| m.remove_at(i));
                let evicted = m.evict_to(limit - entry);
                m.push(Ent { k, key_id: kid, val_id: vid, kheap, vheap, tag, size: entry });
                self.side_mut().desynced.remove(&k);
                self.side_mut().shrunk.remove(&k);
                match (&replaced, old) {
                    (None, None) => { },
                    (Some(r), Some(v)) => {
                        ck!(self, v.id == r.val_id, ["C04", "C06"], "insert-wrong-old",
                            "insert returned old value id {} but the stored value had id {}", v.id, r.val_id);
                        self.take_val(v, "insert (replaced value)");
                    },
                    (None, Some(v)) => {
                        self.fail(vec!["C04"], "insert-phantom-old".into(),
                            format!("insert returned an old value (id {}) for key {} which was absent", v.id, k));
                        self.take_val(v, "insert (phantom)");
                    },
                    (Some(r), None) => {
                        self.fail(vec!["C04"], "insert-lost-old".into(),
                            format!("insert of present key {} did not return the old value id {}", k, r.val_id));
                    },
                }
                if let Some(r) = &replaced {
                    // the old key is dropped, the old value handed back
                    let kd = tracked::obj(r.key_id).map(|o| o.st);
                    ck!(self, kd == Some(tracked::St::Dropped), ["C06"], "insert-old-key",
                        "after replacing key {} the old key object id {} is {:?}, expected dropped", k, r.key_id, kd);
                    info.asked.insert(k);
                }
                self.expect_dropped(&evicted, vec!["C06"], "evicted by insert");
                self.expect_evicted_in_order(&evicted, "insert");
                if !evicted.is_empty() {
                    self.stats.ev("evict.insert");
                    if evicted.len() >= 2 { self.stats.ev("evict.insert.multi"); }
                }
                if replaced.is_some() {
                    self.stats.ev("insert.replace");
                    if self.want("C02") && replaced.as_ref().unwrap().size != entry {
                        self.nontrivial("C02", format!("replace-diff-size|{}", self.hkind().class()));
                    }
                    if self.want("C04") && self.hkind().colliding() {
                        self.nontrivial("C04", format!("replace|{}", self.hkind().to_text()));
                    }
                }
                else {
                    let s = self.side_mut();
                    if let Some((n, c, f)) = s.wc_track {
                        if evicted.is_empty() { s.wc_track = Some((n, c, f + 1)); } else { s.wc_track = None; }
                    }
                }
                if replaced.is_some() || !evicted.is_empty() {
                    self.side_mut().wc_track = None;
                }
                if self.want("C10") && entry == limit - (total - credit).min(limit) {
                    self.nontrivial("C10", "insert|exact-fit".to_string());
                }
            },
        }
        self.after_op(&pre, &info, run.builds, level);
    }

    fn do_try_insert(&mut self, k: u16, kheap: usize, vheap: usize, cls: &'static str) {
        let pre = self.pre();
        let inj = self.injected();
        let entry = self.e0 + kheap + vheap;
        let limit = self.side().model.limit;
        let total = self.side().model.total();
        let free = limit - total.min(limit);
        let present = self.side().model.contains(k);
        let tag = self.step as u32;
        let key = mk_key(k, kheap);
        let val = mk_val(tag, vheap);
        let (kid, vid) = (key.id, val.id);
        give_to_cache(&key, &val);
        self.log(format!("try_insert k={} kheap={} vheap={} (entry {} limit {} free {} present {})", k, kheap, vheap, entry, limit, free, present));

        let run = self.run(&[], move |c| c.try_insert(key, val));
        if let Some(msg) = &run.panic {
            if run.injected {
                let (cb, nth, _) = inj.unwrap();
                self.after_injected_panic(&pre, "try_insert", cb, nth, &BTreeSet::new(), false);
            }
            else {
                self.unexpected_panic("try_insert", msg);
            }
            return;
        }
        #[derive(Debug, PartialEq, Eq, Clone, Copy)]
        enum Out { TooLarge, WouldEject, Occupied, Ok }
        let expect = if entry > limit { Out::TooLarge }
            else if entry > free { Out::WouldEject }
            else if present { Out::Occupied }
            else { Out::Ok };
        let conditions = (entry > limit) as u8 + (entry > free) as u8 + present as u8;
        if conditions >= 2 {
            self.nontrivial("C10", format!("try_insert|{:?}|multi{}{}{}", expect,
                (entry > limit) as u8, (entry > free) as u8, present as u8));
        }
        if expect == Out::Ok && entry == free {
            self.nontrivial("C10", "try_insert|exact-fit".to_string());
        }
        if entry > free {
            let h = self.hkind().class();
            self.nontrivial("C01", format!("try_insert|{}|{}", h, cls));
        }
        let mut info = Info { name: "try_insert", subject: Some(k), promoting: true, evicting: false,
            may_rebuild: true, is_insert: true, incoming: None, ..Info::default() };
        let got;
        match run.ret.unwrap() {
            Ok(()) => {
                got = Out::Ok;
                if expect == Out::Ok {
                    self.side_mut().model.push(Ent { k, key_id: kid, val_id: vid, kheap, vheap, tag, size: entry });
                    let s = self.side_mut();
                    if let Some((n, c, f)) = s.wc_track { s.wc_track = Some((n, c, f + 1)); }
                }
                else {
                    tracked::set_leak_ok(kid);
                    tracked::set_leak_ok(vid);
                }
            },
            Err(e) => {
                // accessors on the error value agree with its fields
                let (ek, ev) = e.entry();
                let acc_ok = ek.id == e.key().id && ev.id == e.value().id;
                ck!(self, acc_ok, ["C10"], "tryinsert-accessors", "TryInsertError::entry/key/value disagree");
                let (variant, es, aux) = match &e {
                    TryInsertError::EntryTooLarge { entry_size, max_size, .. } => (Out::TooLarge, Some(*entry_size), Some(*max_size)),
                    TryInsertError::WouldEjectLru { entry_size, free_memory, .. } => (Out::WouldEject, Some(*entry_size), Some(*free_memory)),
                    TryInsertError::OccupiedEntry { .. } => (Out::Occupied, None, None),
                };
                got = variant;
                if let Some(es) = es {
                    ck!(self, es == entry, ["C10"], "tryinsert-entry-size",
                        "{:?} reports entry_size {} but entry_size(key, value) is {}", variant, es, entry);
                }
                match variant {
                    Out::TooLarge => ck!(self, aux == Some(limit), ["C10"], "tryinsert-max-size",
                        "EntryTooLarge reports max_size {:?} but it is {}", aux, limit),
                    Out::WouldEject => ck!(self, aux == Some(free), ["C10"], "tryinsert-free-memory",
                        "WouldEjectLru reports free_memory {:?} but max_size - current_size is {}", aux, free),
                    _ => { },
                }
                // identity through one of the consuming accessors
                match self.step % 3 {
                    0 => {
                        let (rk, rv) = e.into_entry();
                        ck!(self, rk.id == kid && rv.id == vid, ["C10"], "tryinsert-identity",
                            "error returned ids {}/{} but {}/{} were passed", rk.id, rv.id, kid, vid);
                        self.take_key(rk, "try_insert error");
                        self.take_val(rv, "try_insert error");
                    },
                    1 => {
                        let rk = e.into_key();
                        ck!(self, rk.id == kid, ["C10"], "tryinsert-identity",
                            "error returned key id {} but {} was passed", rk.id, kid);
                        self.take_key(rk, "try_insert error");
                    },
                    _ => {
                        let rv = e.into_value();
                        ck!(self, rv.id == vid, ["C10"], "tryinsert-identity",
                            "error returned value id {} but {} was passed", rv.id, vid);
                        self.take_val(rv, "try_insert error");
                    },
                }
                info.unchanged = vec!["C10"];
                info.subject = None;
                info.promoting = false;
            },
        }
        ck!(self, got == expect, ["C10"], format!("tryinsert-class:{:?}->{:?}", expect, got),
            "try_insert returned {:?}, expected {:?} (entry {} max {} free {} present {})",
            got, expect, entry, limit, free, present);
        self.after_op(&pre, &info, run.builds, Level::Full);
    }

    // ------------------------------------------------------------ lookups

    fn do_lookup(&mut self, name: &'static str, key: &KeySel, form: Form) {
        let pre = self.pre();
        let inj = self.injected();
        let k = self.resolve_key(key);
        let pos = self.side().model.pos(k);
        let q = mk_key(k, 0);
        let qid = q.id;
        self.log(format!("{} k={} {:?} (present {:?})", name, k, form, pos));
        let run = self.run(&[qid], |c| {
            match (name, form) {
                ("get", Form::Owned) => c.get(&q).map(|v| Found::Val(v.id)).unwrap_or(Found::None),
                ("get", Form::Borrowed) => c.get(&k).map(|v| Found::Val(v.id)).unwrap_or(Found::None),
                ("get_entry", Form::Owned) => c.get_entry(&q).map(|(a, b)| Found::Pair(a.id, b.id)).unwrap_or(Found::None),
                ("get_entry", Form::Borrowed) => c.get_entry(&k).map(|(a, b)| Found::Pair(a.id, b.id)).unwrap_or(Found::None),
                ("touch", Form::Owned) => { c.touch(&q); Found::Unit },
                ("touch", Form::Borrowed) => { c.touch(&k); Found::Unit },
                ("peek", Form::Owned) => c.peek(&q).map(|v| Found::Val(v.id)).unwrap_or(Found::None),
                ("peek", Form::Borrowed) => c.peek(&k).map(|v| Found::Val(v.id)).unwrap_or(Found::None),
                ("peek_entry", Form::Owned) => c.peek_entry(&q).map(|(a, b)| Found::Pair(a.id, b.id)).unwrap_or(Found::None),
                ("peek_entry", Form::Borrowed) => c.peek_entry(&k).map(|(a, b)| Found::Pair(a.id, b.id)).unwrap_or(Found::None),
                ("contains", Form::Owned) => Found::Bool(c.contains(&q)),
                ("contains", Form::Borrowed) => Found::Bool(c.contains(&k)),
                _ => unreachable!(),
            }
        });
        if let Some(msg) = &run.panic {
            if run.injected {
                let (cb, nth, _) = inj.unwrap();
                self.after_injected_panic(&pre, name, cb, nth, &BTreeSet::new(), false);
            }
            else {
                self.unexpected_panic(name, msg);
            }
            return;
        }
        let got = run.ret.unwrap();
        let ent = pos.map(|i| self.side().model.order[i].clone());
        let expect = match (name, &ent) {
            ("touch", _) => Found::Unit,
            ("contains", e) => Found::Bool(e.is_some()),
            (_, None) => Found::None,
            ("get", Some(e)) | ("peek", Some(e)) => Found::Val(e.val_id),
            (_, Some(e)) => Found::Pair(e.key_id, e.val_id),
        };
        ck!(self, got == expect, ["C04"], format!("lookup:{}", name),
            "{}({}, {:?}) returned {:?}, a sequential map returns {:?}", name, k, form, got, expect);
        let promoting = matches!(name, "get" | "get_entry" | "touch");
        let mut info = Info { name, subject: Some(k), promoting, ..Info::default() };
        if promoting {
            if let Some(i) = pos {
                self.side_mut().model.promote(i);
            }
        }
        else {
            info.unchanged = vec!["C19", "C05"];
            if self.want("C19") {
                if let Some(i) = pos {
                    let n = self.side().model.len();
                    if n >= 2 && i + 1 != n {
                        self.nontrivial("C19", format!("{}|{}|{:?}", name, if i == 0 { "lru" } else { "middle" }, form));
                    }
                }
                else if self.side().model.len() >= 2 {
                    self.nontrivial("C19", format!("{}|absent|{:?}", name, form));
                }
            }
        }
        self.after_op(&pre, &info, run.builds, Level::Full);
    }

    fn do_end(&mut self, name: &'static str) {
        let pre = self.pre();
        let inj = self.injected();
        self.log(name.to_string());
        let run = self.run(&[], |c| {
            match name {
                "get_lru" => c.get_lru().map(|(a, b)| Found::Pair(a.id, b.id)).unwrap_or(Found::None),
                "peek_lru" => c.peek_lru().map(|(a, b)| Found::Pair(a.id, b.id)).unwrap_or(Found::None),
                "peek_mru" => c.peek_mru().map(|(a, b)| Found::Pair(a.id, b.id)).unwrap_or(Found::None),
                _ => unreachable!(),
            }
        });
        if let Some(msg) = &run.panic {
            if run.injected {
                let (cb, nth, _) = inj.unwrap();
                self.after_injected_panic(&pre, name, cb, nth, &BTreeSet::new(), false);
            }
            else {
                self.unexpected_panic(name, msg);
            }
            return;
        }
        let got = run.ret.unwrap();
        let m = &self.side().model;
        let e = if name == "peek_mru" { m.order.last() } else { m.order.first() };
        let expect = e.map(|e| Found::Pair(e.key_id, e.val_id)).unwrap_or(Found::None);
        let subject = e.map(|e| e.k);
        ck!(self, got == expect, ["C05", "C04"], format!("end:{}", name),
            "{} returned {:?}, expected {:?}", name, got, expect);
        let mut info = Info { name, subject, ..Info::default() };
        if name == "get_lru" {
            info.promoting = true;
            if !self.side().model.order.is_empty() {
                self.side_mut().model.promote(0);
            }
        }
        else {
            info.unchanged = vec!["C19", "C05"];
            info.zero_hash = true;
            if self.side().model.len() >= 2 {
                self.nontrivial("C19", format!("{}|end", name));
            }
        }
        self.after_op(&pre, &info, run.builds, Level::Full);
    }

    // ------------------------------------------------------------ removal

    /// Bulk path of Churn: constant work per removal.
    fn light_remove(&mut self, which: u8, round: u16) {
        self.pending_inject = None;
        let n = self.side().model.len();
        if n == 0 {
            return;
        }
        let (pos, name): (usize, &'static str) = match which % 3 { 0 => (0, "remove_lru"), 1 => (n - 1, "remove_mru"), _ => (n / 2, "remove") };
        let k = self.side().model.order[pos].k;
        let q = mk_key(k, 0);
        let qid = q.id;
        let run = self.run(&[qid], |c| match which % 3 {
            0 => c.remove_lru(),
            1 => c.remove_mru(),
            _ => if round % 2 == 0 { c.remove_entry(&q) } else { c.remove_entry(&k) },
        });
        drop(q);
        if let Some(msg) = &run.panic {
            self.unexpected_panic(name, msg);
            return;
        }
        self.stats.steps += 1;
        let e = self.side_mut().model.remove_at(pos);
        self.side_mut().wc_track = None;
        match run.ret.unwrap() {
            Some((gk, gv)) => {
                ck!(self, gk.id == e.key_id && gv.id == e.val_id, ["C04", "C06"], format!("remove-val:{}", name),
                    "{} returned ids {}/{} but the entry for key {} had {}/{}", name, gk.id, gv.id, e.k, e.key_id, e.val_id);
                self.take_key(gk, name);
                self.take_val(gv, name);
            },
            None => self.fail(vec!["C04"], format!("remove-missed:{}", name), format!("{} did not find key {}", name, e.k)),
        }
        ck!(self, run.builds <= 2, ["C20"], format!("hashes:{}", name), "{} computed {} key hashes; bound is 2", name, run.builds);
        self.collect_vios(name);
        let (len, cur) = { let c = self.side().cache(); (c.len(), c.current_size()) };
        let (ml, mt) = (self.side().model.len(), self.side().model.total());
        ck!(self, len == ml && cur == mt, ["C02"], "bulk-remove-accounting",
            "after {} len/current_size are {}/{} but {} entries of total size {} are held", name, len, cur, ml, mt);
    }

    fn do_remove(&mut self, name: &'static str, key: Option<(&KeySel, Form)>, level: Level) {
        let pre = self.pre();
        let inj = self.injected();
        let (k, form) = match key {
            Some((sel, f)) => (self.resolve_key(sel), f),
            None => {
                let m = &self.side().model;
                let e = if name == "remove_mru" { m.order.last() } else { m.order.first() };
                (e.map(|e| e.k).unwrap_or(0), Form::Owned)
            }
        };
        let pos = match name {
            "remove_lru" => if self.side().model.len() > 0 { Some(0) } else { None },
            "remove_mru" => self.side().model.len().checked_sub(1),
            _ => self.side().model.pos(k),
        };
        let q = mk_key(k, 0);
        let qid = q.id;
        self.log(format!("{} k={} {:?} (pos {:?})", name, k, form, pos));
        let run = self.run(&[qid], |c| -> Option<(Option<TKey>, TVal)> {
            match (name, form) {
                ("remove", Form::Owned) => c.remove(&q).map(|v| (None, v)),
                ("remove", Form::Borrowed) => c.remove(&k).map(|v| (None, v)),
                ("remove_entry", Form::Owned) => c.remove_entry(&q).map(|(a, b)| (Some(a), b)),
                ("remove_entry", Form::Borrowed) => c.remove_entry(&k).map(|(a, b)| (Some(a), b)),
                ("remove_lru", _) => c.remove_lru().map(|(a, b)| (Some(a), b)),
                ("remove_mru", _) => c.remove_mru().map(|(a, b)| (Some(a), b)),
                _ => unreachable!(),
            }
        });
        if let Some(msg) = &run.panic {
            if run.injected {
                let (cb, nth, _) = inj.unwrap();
                self.after_injected_panic(&pre, name, cb, nth, &BTreeSet::new(), false);
            }
            else {
                self.unexpected_panic(name, msg);
            }
            return;
        }
        let got = run.ret.unwrap();
        let ent = pos.map(|i| self.side_mut().model.remove_at(i));
        self.side_mut().wc_track = None;
        let mut info = Info { name, ..Info::default() };
        match (ent, got) {
            (None, None) => { },
            (Some(e), Some((gk, gv))) => {
                info.asked.insert(e.k);
                ck!(self, gv.id == e.val_id, ["C04", "C06"], format!("remove-val:{}", name),
                    "{} returned value id {} but the stored value for key {} had id {}", name, gv.id, e.k, e.val_id);
                self.take_val(gv, name);
                match gk {
                    Some(gk) => {
                        ck!(self, gk.id == e.key_id, ["C04", "C06"], format!("remove-key:{}", name),
                            "{} returned key id {} but the stored key had id {}", name, gk.id, e.key_id);
                        self.take_key(gk, name);
                    },
                    None => {
                        let st = tracked::obj(e.key_id).map(|o| o.st);
                        ck!(self, st == Some(tracked::St::Dropped), ["C06"], "remove-key-dropped",
                            "remove({}) did not drop the stored key id {} ({:?})", e.k, e.key_id, st);
                    }
                }
                if self.want("C02") && self.side().desynced.is_empty() && e.size != self.e0 + e.kheap {
                    self.stats.ev("remove.sized");
                }
                if self.want("C04") && self.hkind().colliding() {
                    self.stats.ev("remove.colliding");
                }
                self.side_mut().desynced.remove(&e.k);
                self.side_mut().shrunk.remove(&e.k);
            },
            (None, Some((gk, gv))) => {
                self.fail(vec!["C04"], format!("remove-phantom:{}", name),
                    format!("{} of absent key {} returned value id {}", name, k, gv.id));
                self.take_val(gv, name);
                if let Some(gk) = gk { self.take_key(gk, name); }
            },
            (Some(e), None) => {
                self.fail(vec!["C04"], format!("remove-missed:{}", name),
                    format!("{} did not find key {} (stored value id {})", name, e.k, e.val_id));
            },
        }
        drop(q);
        self.after_op(&pre, &info, run.builds, level);
    }

    // ------------------------------------------------------------ mutate

    fn do_mutate(&mut self, key: &KeySel, form: Form, size: &SizeSel) {
        let pre = self.pre();
        let inj = self.injected();
        let k = self.resolve_key(key);
        let pos = self.side().model.pos(k);
        if pos.is_some() && self.side().desynced.contains(&k) {
            // the value's size changed outside a completed mutate (an earlier
            // callback unwound): outside what the properties promise
            self.stats.skipped += 1;
            self.pending_inject = None;
            return;
        }
        let limit = self.side().model.limit;
        let ent = pos.map(|i| self.side().model.order[i].clone());
        let kheap = ent.as_ref().map(|e| e.kheap).unwrap_or(0);
        let new_vheap = self.resolve_vheap(size, k, kheap, true);
        if let Some(e) = &ent {
            // an entry whose recorded size exceeds its true size (a clone of a
            // value with spare capacity measures less than its source: a size
            // change outside mutate, which C02 excludes): recorded size plus
            // growth must still be a number
            if new_vheap > e.vheap && e.size.checked_add(new_vheap - e.vheap).is_none() {
                self.stats.skipped += 1;
                self.stats.ev("mutate.skipped-recorded-overflow");
                self.pending_inject = None;
                return;
            }
        }
        let token = 1000 + self.step as u32;
        let late = inj.map(|i| i.2).unwrap_or(false);
        let q = mk_key(k, 0);
        let qid = q.id;
        self.log(format!("mutate k={} {:?} new_vheap={} (entry {:?} limit {})", k, form, new_vheap, ent.as_ref().map(|e| e.size), limit));
        let mut ran = 0u32;
        let ran_ref = &mut ran;
        let run = self.run(&[qid], |c| {
            let f = move |v: &mut TVal| -> u32 {
                *ran_ref += 1;
                if !late {
                    tracked::free_callback(Cb::Closure);
                }
                v.heap = new_vheap;
                v.spare = 0;
                v.tag = v.tag.wrapping_add(1);
                if late {
                    tracked::free_callback(Cb::Closure);
                }
                token
            };
            match form {
                Form::Owned => c.mutate(&q, f),
                Form::Borrowed => c.mutate(&k, f),
            }
        });
        drop(q);
        if let Some(msg) = &run.panic {
            if run.injected {
                let (cb, nth, _) = inj.unwrap();
                let strict = cb == Cb::Closure;
                self.after_injected_panic(&pre, "mutate", cb, nth, &BTreeSet::new(), strict);
            }
            else {
                let evicting = ent.as_ref().map(|e| {
                    let total = self.side().model.total();
                    new_vheap > e.vheap && e.size + (new_vheap - e.vheap) <= limit
                        && (total - e.size) as u128 + (e.size + (new_vheap - e.vheap)) as u128 > limit as u128
                }).unwrap_or(false);
                self.unexpected_panic_ev("mutate", msg, evicting);
            }
            return;
        }
        let got = run.ret.unwrap();
        let mut info = Info { name: "mutate", subject: Some(k), ..Info::default() };
        match ent {
            None => {
                ck!(self, ran == 0, ["C11"], "mutate-absent-ran",
                    "mutate ran the closure {} times for absent key {}", ran, k);
                let ok_none = matches!(got, Ok(None));
                ck!(self, ok_none, ["C11", "C04"], "mutate-absent-ret",
                    "mutate of absent key {} did not return Ok(None)", k);
                if let Err(MutateError::EntryTooLarge { key, value, .. }) = got {
                    self.take_key(key, "mutate");
                    self.take_val(value, "mutate");
                }
                info.unchanged = vec!["C11"];
                info.subject = None;
            },
            Some(e) => {
                ck!(self, ran == 1, ["C11"], "mutate-ran",
                    "mutate ran the closure {} times for present key {}", ran, k);
                let i = pos.unwrap();
                let grow = new_vheap > e.vheap;
                let new_size = if grow { e.size + (new_vheap - e.vheap) } else { e.size - (e.vheap - new_vheap) };
                let n = self.side().model.len();
                let pc = if n == 1 { "only" } else if i == 0 { "lru" } else if i + 1 == n { "mru" } else { "middle" };
                if grow && new_size > limit {
                    // overflow: removed and handed back
                    match got {
                        Err(MutateError::EntryTooLarge { key, value, old_entry_size, new_entry_size, max_size }) => {
                            ck!(self, key.id == e.key_id && value.id == e.val_id, ["C11", "C06"], "mutate-err-identity",
                                "EntryTooLarge returned ids {}/{} but the cached entry had {}/{}", key.id, value.id, e.key_id, e.val_id);
                            ck!(self, value.measured() == new_vheap && value.tag == e.tag.wrapping_add(1), ["C11"], "mutate-err-value",
                                "EntryTooLarge returned a value with heap {} tag {}, the mutated value has heap {} tag {}",
                                value.heap, value.tag, new_vheap, e.tag.wrapping_add(1));
                            ck!(self, old_entry_size == e.size && new_entry_size == new_size && max_size == limit,
                                ["C11"], "mutate-err-fields",
                                "EntryTooLarge reports old {} new {} max {} but exact values are {} {} {}",
                                old_entry_size, new_entry_size, max_size, e.size, new_size, limit);
                            self.take_key(key, "mutate error");
                            self.take_val(value, "mutate error");
                        },
                        Ok(r) => self.fail(vec!["C11", "C01"], "mutate-overflow-accepted".into(),
                            format!("mutate grew entry {} to {} > max_size {} but returned Ok({:?})", k, new_size, limit, r)),
                    }
                    self.side_mut().model.remove_at(i);
                    self.side_mut().wc_track = None;
                    info.asked.insert(k);
                    info.subject_rejected = true;
                    if n >= 2 {
                        self.nontrivial("C11", format!("overflow|{}|{}", pc, self.hkind().class()));
                    }
                    self.nontrivial("C01", format!("mutate-overflow|{}|{}", self.hkind().class(), size.class()));
                    if self.want("C02") {
                        self.nontrivial("C02", format!("mutate-overflow-departure|{}", pc));
                    }
                }
                else {
                    match got {
                        Ok(Some(t)) => ck!(self, t == token, ["C11"], "mutate-token",
                            "mutate returned {} but the closure returned {}", t, token),
                        Ok(None) => self.fail(vec!["C11"], "mutate-none".into(),
                            format!("mutate of present key {} returned Ok(None)", k)),
                        Err(MutateError::EntryTooLarge { key, value, new_entry_size, .. }) => {
                            self.fail(vec!["C11"], "mutate-spurious-toolarge".into(),
                                format!("mutate to entry size {} (reported {}) failed although max_size is {}", new_size, new_entry_size, limit));
                            self.take_key(key, "mutate");
                            self.take_val(value, "mutate");
                            tracked::set_leak_ok(e.key_id);
                            tracked::set_leak_ok(e.val_id);
                            return;
                        },
                    }
                    let m = &mut self.side_mut().model;
                    m.order[i].vheap = new_vheap;
                    m.order[i].tag = e.tag.wrapping_add(1);
                    m.set_size(i, new_size);
                    m.promote(i);
                    let evicted = if grow { m.evict_to(limit) } else { vec![] };
                    self.expect_dropped(&evicted, vec!["C06"], "evicted by mutate");
                    self.expect_evicted_in_order(&evicted, "mutate");
                    info.promoting = true;
                    info.evicting = grow;
                    info.incoming = Some(new_size);
                    if !evicted.is_empty() {
                        self.side_mut().wc_track = None;
                        self.stats.ev("evict.mutate");
                        self.nontrivial("C01", format!("mutate-evict|{}|{}", self.hkind().class(), size.class()));
                    }
                    if n >= 2 && new_vheap != e.vheap {
                        self.nontrivial("C11", format!("{}|{}|{}",
                            if !grow { "shrink" } else if evicted.is_empty() { "grow-fit" } else if evicted.len() == 1 { "grow-evict1" } else { "grow-evictN" },
                            pc, self.hkind().class()));
                        if self.want("C02") {
                            self.nontrivial("C02", format!("mutate-resize|{}|{}", if grow { "grow" } else { "shrink" }, pc));
                        }
                    }
                }
            },
        }
        self.after_op(&pre, &info, run.builds, Level::Full);
    }

    // ------------------------------------------------------ set_max_size

    fn do_set_max_size(&mut self, l: &LimSel) {
        let pre = self.pre();
        let inj = self.injected();
        let new_limit = self.resolve_limit(l);
        let total = self.side().model.total();
        self.log(format!("set_max_size {} (total {})", new_limit, total));
        let run = self.run(&[], |c| c.set_max_size(new_limit));
        if let Some(msg) = &run.panic {
            if run.injected {
                let (cb, nth, _) = inj.unwrap();
                self.after_injected_panic(&pre, "set_max_size", cb, nth, &BTreeSet::new(), false);
            }
            else {
                self.unexpected_panic("set_max_size", msg);
            }
            return;
        }
        let m = &mut self.side_mut().model;
        let evicted = m.evict_to(new_limit);
        m.limit = new_limit;
        self.expect_dropped(&evicted, vec!["C06"], "evicted by set_max_size");
        self.expect_evicted_in_order(&evicted, "set_max_size");
        if !evicted.is_empty() {
            self.side_mut().wc_track = None;
            self.stats.ev("evict.limit");
        }
        if new_limit < total {
            self.nontrivial("C01", format!("set_max_size|{}|{}", self.hkind().class(), l.class()));
        }
        let info = Info { name: "set_max_size", evicting: true, ..Info::default() };
        self.after_op(&pre, &info, run.builds, Level::Full);
    }

    // ------------------------------------------------------------ retain

    fn do_retain(&mut self, mask: u64, by_key: bool) {
        let pre = self.pre();
        let inj = self.injected();
        let order = self.side().model.order.clone();
        self.log(format!("retain mask={:#x} by_key={} over {:?}", mask, by_key, brief(&self.side().model.keys())));
        let mut calls: Vec<(u16, u64, u64, usize, usize)> = Vec::new();
        let calls_ref = &mut calls;
        let run = self.run(&[], |c| {
            let mut visit = 0u64;
            c.retain(|k, v| {
                calls_ref.push((k.k, k.id, v.id, k as *const TKey as usize, v as *const TVal as usize));
                tracked::free_callback(Cb::Pred);
                let bit = if by_key { k.k as u64 % 64 } else { visit % 64 };
                visit += 1;
                mask >> bit & 1 == 1
            })
        });
        let keep = |visit: usize, k: u16| -> bool {
            let bit = if by_key { k as u64 % 64 } else { visit as u64 % 64 };
            mask >> bit & 1 == 1
        };
        if let Some(msg) = &run.panic {
            if run.injected {
                let (cb, nth, _) = inj.unwrap();
                // entries already rejected before the panicking call may be gone
                let done = calls.len().saturating_sub(1);
                let lost: BTreeSet<u16> = order.iter().enumerate().take(done)
                    .filter(|(i, e)| !keep(*i, e.k)).map(|(_, e)| e.k).collect();
                let strict = cb == Cb::Pred;
                let lost = if strict { lost } else { BTreeSet::new() };
                self.after_injected_panic(&pre, "retain", cb, nth, &lost, strict);
            }
            else {
                self.unexpected_panic("retain", msg);
            }
            return;
        }
        // visiting order, exactly once, with the actual key and value
        let expect_calls: Vec<(u16, u64, u64)> = order.iter().map(|e| (e.k, e.key_id, e.val_id)).collect();
        let got_calls: Vec<(u16, u64, u64)> = calls.iter().map(|c| (c.0, c.1, c.2)).collect();
        ck!(self, got_calls == expect_calls, ["C15"], "retain-visits",
            "retain invoked the predicate on {:?}, expected each entry once from LRU to MRU: {:?}",
            brief(&got_calls), brief(&expect_calls));
        if got_calls == expect_calls {
            for (i, c) in calls.iter().enumerate() {
                let it = &pre.obs.items[i];
                if c.3 != it.kaddr || c.4 != it.vaddr {
                    self.fail(vec!["C15"], "retain-not-actual".into(),
                        format!("retain passed references for entry {} that are not the entry's own key/value", c.0));
                    break;
                }
            }
        }
        let mut removed = Vec::new();
        let mut kept = Vec::new();
        for (i, e) in order.iter().enumerate() {
            if keep(i, e.k) { kept.push(e.clone()); } else { removed.push(e.clone()); }
        }
        let mut info = Info { name: "retain", ..Info::default() };
        for e in &removed {
            info.asked.insert(e.k);
        }
        if !removed.is_empty() {
            self.side_mut().wc_track = None;
        }
        if !removed.is_empty() && !kept.is_empty() && order.len() >= 3 {
            let pat: String = order.iter().enumerate().take(16).map(|(i, e)| if keep(i, e.k) { 'k' } else { 'r' }).collect();
            self.nontrivial("C15", format!("{}|{}", order.len().min(17), pat));
        }
        let total_kept: usize = kept.iter().fold(0usize, |a, e| a.saturating_add(e.size));
        let n_kept = kept.len();
        for e in &removed {
            self.side_mut().desynced.remove(&e.k);
        }
        self.side_mut().model.replace_all(kept);
        self.expect_dropped(&removed, vec!["C15", "C06"], "rejected by retain");
        self.after_op(&pre, &info, run.builds, Level::Full);
        // C15's own statement of the post-state, independent of the model compare tags
        if self.fails.is_empty() {
            let o = &self.side().last_obs;
            let (len, cur) = (o.len, o.cur);
            ck!(self, len == n_kept && cur == total_kept, ["C15"], "retain-accounting",
                "after retain len/current_size are {}/{} but {} entries of total size {} were kept", len, cur, n_kept, total_kept);
        }
        else {
            // re-tag content/order/accounting failures of this step for C15 as well
            let step = self.step;
            for f in self.fails.iter_mut().filter(|f| f.step == step) {
                if f.has("C04") || f.has("C05") || f.has("C02") || f.has("C03") {
                    f.tags.push("C15");
                }
            }
        }
    }

    fn do_clear(&mut self) {
        let pre = self.pre();
        // the only user code clear() runs are destructors
        let inj = self.injected().filter(|i| i.0.is_drop());
        self.pending_inject = inj;
        self.log("clear".into());
        let run = self.run(&[], |c| c.clear());
        if let Some(msg) = &run.panic {
            if run.injected {
                let (cb, nth, _) = inj.unwrap();
                let all: BTreeSet<u16> = pre.ents.iter().map(|e| e.k).collect();
                self.after_injected_panic(&pre, "clear", cb, nth, &all, false);
            }
            else {
                self.unexpected_panic("clear", msg);
            }
            return;
        }
        let gone = self.side_mut().model.clear();
        self.side_mut().desynced.clear();
        self.side_mut().wc_track = None;
        self.expect_dropped(&gone, vec!["C06"], "clear");
        let mut info = Info { name: "clear", zero_hash: true, ..Info::default() };
        for e in &gone {
            info.asked.insert(e.k);
        }
        self.after_op(&pre, &info, run.builds, Level::Full);
    }

    // ---------------------------------------------------------- scalars

    fn do_scalars(&mut self) {
        let pre = self.pre();
        self.pending_inject = None;
        let run = self.run(&[], |c| (c.len(), c.is_empty(), c.current_size(), c.max_size(), c.capacity(), c.hasher().kind));
        if let Some(msg) = &run.panic {
            self.unexpected_panic("scalars", msg);
            return;
        }
        let (len, empty, cur, max, cap, hk) = run.ret.unwrap();
        let m = &self.side().model;
        let (ml, mt, mlim) = (m.len(), m.total(), m.limit);
        ck!(self, len == ml && empty == (ml == 0), ["C02", "C04"], "scalars-len",
            "len()/is_empty() = {}/{} but the cache holds {} entries", len, empty, ml);
        ck!(self, cur == mt, ["C02"], "scalars-size", "current_size() = {} but entries sum to {}", cur, mt);
        ck!(self, max == mlim, ["C01"], "scalars-max", "max_size() = {} but the limit is {}", max, mlim);
        ck!(self, cap >= len, ["C13"], "scalars-cap", "capacity() = {} is below len() = {}", cap, len);
        ck!(self, hk == self.cfg.hasher, ["C19"], "scalars-hasher", "hasher() is not the configured hasher");
        let info = Info { name: "scalars", unchanged: vec!["C19"], zero_hash: true, ..Info::default() };
        self.after_op(&pre, &info, run.builds, Level::Full);
    }

    fn do_debug(&mut self) {
        let pre = self.pre();
        self.pending_inject = None;
        struct MapDbg<'a>(Vec<(&'a TKey, &'a TVal)>);
        impl<'a> std::fmt::Debug for MapDbg<'a> {
            fn fmt(&self, f: &mut std::fmt::Formatter<'_>) -> std::fmt::Result {
                f.debug_map().entries(self.0.iter().map(|(k, v)| (*k, *v))).finish()
            }
        }
        let alt = self.step % 2 == 0;
        let run = self.run(&[], |c| if alt { format!("{:#?}", c) } else { format!("{:?}", c) });
        if let Some(msg) = &run.panic {
            self.unexpected_panic("debug", msg);
            return;
        }
        let got = run.ret.unwrap();
        let expect = {
            let c = self.side().cache();
            let d = MapDbg(c.iter().collect());
            if alt { format!("{:#?}", d) } else { format!("{:?}", d) }
        };
        ck!(self, got == expect, ["C05"], "debug-output",
            "Debug output does not list the entries from least- to most-recently-used: {} vs {}",
            &got[..got.len().min(300)], &expect[..expect.len().min(300)]);
        if self.side().model.len() >= 2 {
            self.nontrivial("C19", "debug".to_string());
        }
        let info = Info { name: "debug", unchanged: vec!["C19", "C05"], zero_hash: true, ..Info::default() };
        self.after_op(&pre, &info, run.builds, Level::Full);
    }
}
