//! The same operation language over other instantiations of
//! `LruCache<K, V, S>`: keys / values with and without drop glue, stateful
//! and zero-sized hash builders. Code paths that specialise on
//! `needs_drop`, `size_of::<S>()` and the like are only reachable this way.
//! A compact interpreter with the core oracles (structure, contents, order,
//! sizes, read-only operations, owning iterators incl. forget, clone,
//! drop-exactly-once for the tracked side).

use std::collections::BTreeSet;
use std::hash::{BuildHasher, Hash, Hasher};
use std::panic::{catch_unwind, AssertUnwindSafe};

use lru_mem::{HeapSize, LruCache, MemSize};

use crate::hashers::{HKind, VHasher};
use crate::interp::{brief, Failure, MAX_HEAP};
use crate::model::{Ent, Model};
use crate::ops::*;
use crate::tracked::{self, St, TKey, TVal};

pub trait VK: Hash + Eq + Clone + MemSize + Sized + 'static {
    const TRACKED: bool;
    /// the borrowed form lookups may go through (`K: Borrow<Q>`)
    type Q: ?Sized + Hash + Eq;
    fn with_q<R>(k: u16, f: impl FnOnce(&Self::Q) -> R) -> R;
    /// heap size a key made by `make(k, heap)` reports
    fn kheap_of(_k: u16, heap: usize) -> usize { heap }
    fn make(k: u16, heap: usize) -> Self;
    fn k(&self) -> u16;
    fn kheap(&self) -> usize;
    fn tid(&self) -> u64;
    /// how often this object has been produced by `Clone::clone` (if it can tell)
    fn gen(&self) -> Option<u16> { None }
    fn name() -> &'static str;
}

pub trait VV: Clone + MemSize + Sized + 'static {
    const TRACKED: bool;
    /// heap size a value made by `make(_, heap)` / changed by `set_heap(heap)` reports
    fn vheap_of(heap: usize) -> usize { heap }
    fn make(tag: u64, heap: usize) -> Self;
    fn tag(&self) -> u64;
    fn vheap(&self) -> usize;
    fn set_heap(&mut self, h: usize);
    fn tid(&self) -> u64;
    fn gen(&self) -> Option<u16> { None }
    fn name() -> &'static str;
}

pub trait VS: BuildHasher + Clone + Sized + 'static {
    fn make(kind: HKind) -> Self;
    fn name() -> &'static str;
    /// How a cache with this builder is constructed (the default builder goes
    /// through the constructors that take no builder).
    fn construct<K, V>(limit: usize, capacity: Option<usize>, kind: HKind) -> LruCache<K, V, Self> {
        match capacity {
            None => LruCache::with_hasher(limit, Self::make(kind)),
            Some(c) => LruCache::with_capacity_and_hasher(limit, c, Self::make(kind)),
        }
    }
}

/// The crate's default hash builder, reached through `LruCache::new` and
/// `LruCache::with_capacity`.
impl VS for hashbrown::hash_map::DefaultHashBuilder {
    fn make(_kind: HKind) -> Self { Default::default() }
    fn name() -> &'static str { "defaulthasher" }
    fn construct<K, V>(limit: usize, capacity: Option<usize>, _kind: HKind) -> LruCache<K, V, Self> {
        match capacity {
            None => LruCache::new(limit),
            Some(c) => {
                LruCache::with_capacity(limit, c)
            },
        }
    }
}

/// Key without drop glue (but with a `Clone` of its own: `gen` counts how
/// often the value has been cloned).
#[derive(Debug)]
pub struct PKey {
    pub k: u16,
    pub heap: u32,
    pub gen: u16,
}

impl Clone for PKey {
    fn clone(&self) -> PKey {
        PKey { k: self.k, heap: self.heap, gen: self.gen + 1 }
    }
}

impl Hash for PKey {
    fn hash<H: Hasher>(&self, state: &mut H) {
        state.write_u16(self.k)
    }
}

impl PartialEq for PKey {
    fn eq(&self, o: &PKey) -> bool {
        self.k == o.k
    }
}

impl Eq for PKey { }

impl HeapSize for PKey {
    fn heap_size(&self) -> usize {
        self.heap as usize
    }
}

/// Value without drop glue; `tag` is unique per constructed value, `gen`
/// counts clones.
#[derive(Debug)]
pub struct PVal {
    pub tag: u64,
    pub heap: u32,
    pub gen: u16,
}

impl Clone for PVal {
    fn clone(&self) -> PVal {
        PVal { tag: self.tag, heap: self.heap, gen: self.gen + 1 }
    }
}

impl HeapSize for PVal {
    fn heap_size(&self) -> usize {
        self.heap as usize
    }
}

impl VK for PKey {
    const TRACKED: bool = false;
    type Q = PKey;
    fn with_q<R>(k: u16, f: impl FnOnce(&PKey) -> R) -> R { let q = PKey::make(k, 0); f(&q) }
    fn make(k: u16, heap: usize) -> Self { PKey { k, heap: heap as u32, gen: 0 } }
    fn k(&self) -> u16 { self.k }
    fn kheap(&self) -> usize { self.heap as usize }
    fn tid(&self) -> u64 { 0 }
    fn gen(&self) -> Option<u16> { Some(self.gen) }
    fn name() -> &'static str { "plainkey" }
}

impl VK for TKey {
    const TRACKED: bool = true;
    type Q = u16;
    fn with_q<R>(k: u16, f: impl FnOnce(&u16) -> R) -> R { f(&k) }
    fn make(k: u16, heap: usize) -> Self { TKey::new(k, heap) }
    fn k(&self) -> u16 { self.k }
    fn kheap(&self) -> usize { self.heap }
    fn tid(&self) -> u64 { self.id }
    fn name() -> &'static str { "trackedkey" }
}

/// `String` keys, looked up through `str`: the borrowed form is unsized,
/// and key 0 is the empty string (zero bytes in the borrowed form).
fn key_text(k: u16) -> String {
    if k == 0 { String::new() } else { format!("{}", k) }
}

impl VK for String {
    const TRACKED: bool = false;
    type Q = str;
    fn with_q<R>(k: u16, f: impl FnOnce(&str) -> R) -> R { let t = key_text(k); f(t.as_str()) }
    // never any spare capacity: a clone of a String drops it, which is not the cache's doing
    fn kheap_of(k: u16, _heap: usize) -> usize { key_text(k).len() }
    fn make(k: u16, _heap: usize) -> Self { String::from(key_text(k).as_str()) }
    fn k(&self) -> u16 { if self.is_empty() { 0 } else { self.parse().unwrap_or(u16::MAX) } }
    fn kheap(&self) -> usize { self.capacity() }
    fn tid(&self) -> u64 { 0 }
    fn name() -> &'static str { "stringkey" }
}

/// Value whose size lives behind a pointer: a mutate that changes only the
/// inner allocation leaves the value's own bytes untouched.
#[derive(Debug)]
pub struct IVal {
    pub tag: u64,
    pub inner: Box<IInner>,
}

#[derive(Debug)]
pub struct IInner {
    pub heap: usize,
    pub gen: u16,
}

impl Clone for IVal {
    fn clone(&self) -> IVal {
        IVal { tag: self.tag, inner: Box::new(IInner { heap: self.inner.heap, gen: self.inner.gen + 1 }) }
    }
}

impl HeapSize for IVal {
    fn heap_size(&self) -> usize {
        std::mem::size_of::<IInner>() + self.inner.heap
    }
}

impl VV for IVal {
    const TRACKED: bool = false;
    fn make(tag: u64, heap: usize) -> Self { IVal { tag, inner: Box::new(IInner { heap, gen: 0 }) } }
    fn tag(&self) -> u64 { self.tag }
    fn vheap(&self) -> usize { self.inner.heap }
    fn set_heap(&mut self, h: usize) { self.inner.heap = h }
    fn tid(&self) -> u64 { 0 }
    fn gen(&self) -> Option<u16> { Some(self.inner.gen) }
    fn name() -> &'static str { "indirectval" }
}

/// Zero-sized value (the cache used as an LRU *set*): carries no identity,
/// every value has tag 0 and size 0.
#[derive(Debug, Clone, Copy)]
pub struct ZVal;

impl HeapSize for ZVal {
    fn heap_size(&self) -> usize { 0 }
}

impl VV for ZVal {
    const TRACKED: bool = false;
    fn vheap_of(_heap: usize) -> usize { 0 }
    fn make(_tag: u64, _heap: usize) -> Self { ZVal }
    fn tag(&self) -> u64 { 0 }
    fn vheap(&self) -> usize { 0 }
    fn set_heap(&mut self, _h: usize) { }
    fn tid(&self) -> u64 { 0 }
    fn name() -> &'static str { "zstval" }
}

/// Over-aligned value without drop glue (cache-line / SIMD style types).
#[derive(Debug)]
#[repr(align(32))]
pub struct AVal {
    pub tag: u64,
    pub heap: u32,
    pub gen: u16,
}

impl Clone for AVal {
    fn clone(&self) -> AVal {
        AVal { tag: self.tag, heap: self.heap, gen: self.gen + 1 }
    }
}

impl HeapSize for AVal {
    fn heap_size(&self) -> usize {
        self.heap as usize
    }
}

impl VV for AVal {
    const TRACKED: bool = false;
    fn make(tag: u64, heap: usize) -> Self { AVal { tag, heap: heap as u32, gen: 0 } }
    fn tag(&self) -> u64 { self.tag }
    fn vheap(&self) -> usize { self.heap as usize }
    fn set_heap(&mut self, h: usize) { self.heap = h as u32 }
    fn tid(&self) -> u64 { 0 }
    fn gen(&self) -> Option<u16> { Some(self.gen) }
    fn name() -> &'static str { "alignedval" }
}

/// Over-aligned key (alignment 64) without drop glue.
#[derive(Debug)]
#[repr(align(64))]
pub struct AKey {
    pub k: u16,
    pub heap: u32,
    pub gen: u16,
}

impl Clone for AKey {
    fn clone(&self) -> AKey { AKey { k: self.k, heap: self.heap, gen: self.gen + 1 } }
}

impl Hash for AKey {
    fn hash<H: Hasher>(&self, state: &mut H) { state.write_u16(self.k) }
}

impl PartialEq for AKey {
    fn eq(&self, o: &AKey) -> bool { self.k == o.k }
}

impl Eq for AKey { }

impl HeapSize for AKey {
    fn heap_size(&self) -> usize { self.heap as usize }
}

impl std::borrow::Borrow<u16> for AKey {
    fn borrow(&self) -> &u16 { &self.k }
}

impl VK for AKey {
    const TRACKED: bool = false;
    type Q = u16;
    fn with_q<R>(k: u16, f: impl FnOnce(&u16) -> R) -> R { f(&k) }
    fn make(k: u16, heap: usize) -> Self { AKey { k, heap: heap as u32, gen: 0 } }
    fn k(&self) -> u16 { self.k }
    fn kheap(&self) -> usize { self.heap as usize }
    fn tid(&self) -> u64 { 0 }
    fn gen(&self) -> Option<u16> { Some(self.gen) }
    fn name() -> &'static str { "alignedkey" }
}

impl VV for PVal {
    const TRACKED: bool = false;
    fn make(tag: u64, heap: usize) -> Self { PVal { tag, heap: heap as u32, gen: 0 } }
    fn tag(&self) -> u64 { self.tag }
    fn vheap(&self) -> usize { self.heap as usize }
    fn set_heap(&mut self, h: usize) { self.heap = h as u32 }
    fn tid(&self) -> u64 { 0 }
    fn gen(&self) -> Option<u16> { Some(self.gen) }
    fn name() -> &'static str { "plainval" }
}

impl VV for TVal {
    const TRACKED: bool = true;
    fn make(_tag: u64, heap: usize) -> Self { TVal::new(0, heap) }
    // a clone gets a new id: the stable identity is the origin-free tag below
    fn tag(&self) -> u64 { self.id }
    fn vheap(&self) -> usize { self.heap }
    fn set_heap(&mut self, h: usize) { self.heap = h }
    fn tid(&self) -> u64 { self.id }
    fn name() -> &'static str { "trackedval" }
}

impl VS for VHasher {
    fn make(kind: HKind) -> Self { VHasher::new(kind) }
    fn name() -> &'static str { "statefulhasher" }
}

/// Zero-sized hash builder.
#[derive(Clone, Copy, Default, Debug)]
pub struct ZHasher;

pub struct ZH(u64);

impl Hasher for ZH {
    fn write(&mut self, bytes: &[u8]) {
        for &b in bytes.iter().rev() {
            self.0 = (self.0 << 8) | b as u64;
        }
    }

    fn finish(&self) -> u64 {
        self.0.wrapping_add(1).wrapping_mul(0x9E37_79B9_7F4A_7C15).rotate_left(26)
    }
}

impl BuildHasher for ZHasher {
    type Hasher = ZH;

    fn build_hasher(&self) -> ZH {
        ZH(0)
    }
}

impl VS for ZHasher {
    fn make(_kind: HKind) -> Self { ZHasher }
    fn name() -> &'static str { "zsthasher" }
}

pub struct Mini<K: VK, V: VV, S: VS> {
    cache: Option<LruCache<K, V, S>>,
    model: Model,
    cfg: Config,
    e0: usize,
    step: usize,
    next_tag: u64,
    pub fails: Vec<Failure>,
    leaks_allowed: bool,
    pub steps: u64,
    pub events: BTreeSet<String>,
}

macro_rules! mk {
    ($m:expr, $cond:expr, [$($tag:expr),+], $sig:expr, $($fmt:tt)+) => {
        if !($cond) {
            $m.fail(vec![$($tag),+], $sig.to_string(), format!($($fmt)+));
        }
    };
}

impl<K: VK + std::borrow::Borrow<K::Q>, V: VV, S: VS> Mini<K, V, S> {
    pub fn new(cfg: &Config) -> Self {
        tracked::reset();
        crate::hashers::reset_clones();
        let e0 = {
            let k = K::make(0, 0);
            let v = V::make(0, 0);
            lru_mem::entry_size(&k, &v)
        };
        tracked::reset();
        let limit = match cfg.limit {
            LimSel::Zero => 0,
            LimSel::Abs(n) => n as usize,
            LimSel::CurPlus(d) => d.max(0) as usize,
            LimSel::KeepMru(n, d) => (n as usize * e0).saturating_add_signed(d as isize),
            LimSel::Ents(n, d) => (n as usize * e0).saturating_add_signed(d as isize),
            LimSel::Max => usize::MAX,
            LimSel::MaxMinus(d) => usize::MAX - d as usize,
            LimSel::Pow(e, d) => (1usize << e.min(63)).saturating_add_signed(d as isize),
            LimSel::ThreeQuarters(d) => ((1usize << 63) + (1usize << 62)).saturating_add_signed(d as isize),
        };
        let cache: LruCache<K, V, S> = S::construct(limit, cfg.capacity.map(|c| c as usize), cfg.hasher);
        let cap0 = cache.capacity();
        let max0 = cache.max_size();
        let mut m = Mini {
            cache: Some(cache), model: Model::new(limit, cfg.universe as usize), cfg: cfg.clone(), e0,
            step: 0, next_tag: 1, fails: vec![], leaks_allowed: false, steps: 0, events: BTreeSet::new(),
        };
        // what the constructors promise
        if let Some(c) = cfg.capacity {
            mk!(m, cap0 >= c as usize, ["C13"], "ctor-capacity", "constructed with capacity {} but capacity() is {}", c, cap0);
        }
        mk!(m, max0 == limit, ["C01"], "ctor-limit", "constructed with max_size {} but max_size() is {}", limit, max0);
        m
    }

    pub fn variant_name() -> String {
        format!("{}+{}+{}", K::name(), V::name(), S::name())
    }

    fn fail(&mut self, tags: Vec<&'static str>, sig: String, msg: String) {
        self.fails.push(Failure { tags, sig, msg: format!("[variant {}] {}", Self::variant_name(), msg), step: self.step });
    }

    fn c(&self) -> &LruCache<K, V, S> {
        self.cache.as_ref().unwrap()
    }

    fn resolve_key(&self, sel: &KeySel) -> u16 {
        let m = &self.model;
        let u = self.cfg.universe;
        match *sel {
            KeySel::Lru => m.order.first().map(|e| e.k).unwrap_or(0),
            KeySel::Mru => m.order.last().map(|e| e.k).unwrap_or(0),
            KeySel::Nth(i) => if m.order.is_empty() { i % u } else { m.order[(i as usize * m.len()) >> 16].k },
            KeySel::Absent(j) => m.absent(j, u).unwrap_or(j % u),
            KeySel::Raw(k) => k % u,
        }
    }

    fn resolve_vheap(&self, sel: &SizeSel, k: u16, kheap: usize, credit: bool) -> usize {
        let m = &self.model;
        let base = self.e0 + kheap;
        let own = if credit { m.get(k).map(|e| e.size).unwrap_or(0) } else { 0 };
        let free = (m.limit - m.total().min(m.limit)).saturating_add(own);
        let target: usize = match *sel {
            SizeSel::Zero => base,
            SizeSel::Abs(n) => base + n as usize,
            SizeSel::FreePlus(d) => free.saturating_add_signed(d as isize),
            SizeSel::MaxPlus(d) => m.limit.saturating_add_signed(d as isize),
            SizeSel::NeedEvict(n, d) => {
                let extra: usize = m.order.iter().filter(|e| e.k != k).take(n as usize).map(|e| e.size).sum();
                free.saturating_add(extra).saturating_add_signed(d as isize)
            },
            SizeSel::Frac(k, d) => (m.limit >> k.min(8)).saturating_add_signed(d as isize),
        };
        target.saturating_sub(base).min(MAX_HEAP).min(u32::MAX as usize / 2)
    }

    fn fresh_tag(&mut self) -> u64 {
        self.next_tag += 1;
        self.next_tag
    }

    /// Marks a tracked object that the harness received as accounted for.
    fn received_k(&mut self, k: K, ctx: &str) {
        if K::TRACKED {
            let st = tracked::obj(k.tid()).map(|o| o.st);
            if st != Some(St::Live) {
                self.fail(vec!["C06", "C12", "C17"], "handed-back-twice".into(),
                    format!("key id {} handed back by {} is {:?}", k.tid(), ctx, st));
                std::mem::forget(k);
                return;
            }
        }
        drop(k);
    }

    fn received_v(&mut self, v: V, ctx: &str) {
        if V::TRACKED {
            let st = tracked::obj(v.tid()).map(|o| o.st);
            if st != Some(St::Live) {
                self.fail(vec!["C06", "C12", "C17"], "handed-back-twice".into(),
                    format!("value id {} handed back by {} is {:?}", v.tid(), ctx, st));
                std::mem::forget(v);
                return;
            }
        }
        drop(v);
    }

    fn expect_dropped(&mut self, ents: &[Ent], ctx: &str) {
        for e in ents {
            for (tracked_side, id, what) in [(K::TRACKED, e.key_id, "key"), (V::TRACKED, e.val_id, "value")] {
                if tracked_side {
                    let st = tracked::obj(id).map(|o| o.st);
                    if st != Some(St::Dropped) {
                        // "owning iterators drop whatever was not consumed" is C12's statement too
                        let tags = if ctx.starts_with("not consumed") { vec!["C06", "C12"] } else { vec!["C06"] };
                        self.fail(tags, "not-dropped".into(),
                            format!("{} id {} of departed entry {} is {:?}, expected dropped ({})", what, id, e.k, st, ctx));
                    }
                }
            }
        }
    }

    fn collect_vios(&mut self, ctx: &str) {
        for v in tracked::take_vios() {
            let tags: Vec<&'static str> = match v.kind {
                tracked::VioKind::DoubleDrop => vec!["C06", "C12", "C17"],
                _ => vec!["C07", "C06", "C17"],
            };
            self.fail(tags, format!("{:?}", v.kind), format!("{} ({})", v.describe(), ctx));
        }
    }

    /// Full state check against the model. `own`: property of the operation
    /// that just ran (added to structural failures).
    fn check_state(&mut self, name: &str, own: Option<&'static str>) {
        self.steps += 1;
        self.collect_vios(name);
        let structure = self.c().verif_structure();
        let sizes = match structure {
            Ok(s) => s.sizes,
            Err(e) => {
                let mut tags = vec!["C07", "C17"];
                if let Some(t) = own { tags.push(t); }
                self.fail(tags, "structure".into(), format!("after {}: structure walk failed: {}", name, e));
                return;
            },
        };
        let (items, rev, len, cur, max, lru, mru, empty) = {
            let c = self.c();
            let items: Vec<(u16, u64, usize, usize)> = c.iter().take(sizes.len() + 2).map(|(k, v)| (k.k(), v.tag(), k.kheap(), v.vheap())).collect();
            let mut rev: Vec<u64> = c.iter().rev().take(sizes.len() + 2).map(|(_, v)| v.tag()).collect();
            rev.reverse();
            (items, rev, c.len(), c.current_size(), c.max_size(),
                c.peek_lru().map(|(_, v)| v.tag()), c.peek_mru().map(|(_, v)| v.tag()), c.is_empty())
        };
        let fwd: Vec<u64> = items.iter().map(|i| i.1).collect();
        mk!(self, rev == fwd, ["C07", "C05", "C12"], "mirror", "after {}: iter().rev() does not mirror iter()", name);
        mk!(self, items.len() == len, ["C02", "C07"], "iter-len", "after {}: iter() yields {} items, len() = {}", name, items.len(), len);
        mk!(self, empty == (len == 0) && (cur == 0) == (len == 0), ["C02"], "zero-size",
            "after {}: len {} is_empty {} current_size {}", name, len, empty, cur);
        mk!(self, cur <= max, ["C01"], "bound", "after {}: current_size {} exceeds max_size {}", name, cur, max);
        mk!(self, lru == fwd.first().copied() && mru == fwd.last().copied(), ["C05", "C19"], "peek-ends",
            "after {}: peek_lru/peek_mru = {:?}/{:?} but iteration ends are {:?}/{:?}", name, lru, mru, fwd.first(), fwd.last());
        let recorded: usize = sizes.iter().sum();
        mk!(self, recorded == cur, ["C02"], "sum-recorded", "after {}: current_size {} but recorded sizes sum to {}", name, cur, recorded);
        let measured: usize = items.iter().map(|i| self.e0 + i.2 + i.3).sum();
        mk!(self, measured == cur, ["C02"], "sum", "after {}: current_size {} but entry_size sums to {}", name, cur, measured);
        // against the model
        let mk_: Vec<(u16, u64)> = self.model.order.iter().map(|e| (e.k, e.val_id)).collect();
        let ok_: Vec<(u16, u64)> = items.iter().map(|i| (i.0, i.1)).collect();
        let mut a = mk_.clone(); a.sort();
        let mut b = ok_.clone(); b.sort();
        if a != b {
            self.fail(vec!["C04"], "contents".into(), format!("after {}: contents differ: model (k,tag) {} cache {}", name, brief(&mk_), brief(&ok_)));
        }
        else if mk_ != ok_ {
            self.fail(vec!["C05"], "order".into(), format!("after {}: order differs: model {} cache {}", name, brief(&mk_), brief(&ok_)));
        }
        mk!(self, max == self.model.limit, ["C01"], "limit", "after {}: max_size {} but limit {}", name, max, self.model.limit);
        // lookups
        let keys: Vec<(u16, u64)> = self.model.order.iter().map(|e| (e.k, e.val_id)).collect();
        for (k, tag) in keys.iter().take(48) {
            let q = K::make(*k, 0);
            let got = self.c().peek::<K>(&q).map(|v| v.tag());
            drop(q);
            if got != Some(*tag) {
                self.fail(vec!["C04", "C07"], "lookup".into(), format!("after {}: peek({}) = {:?}, expected {}", name, k, got, tag));
                break;
            }
        }
        self.collect_vios(name);
    }

    fn run_op<R>(&mut self, name: &str, f: impl FnOnce(&mut LruCache<K, V, S>) -> R) -> Option<R> {
        let mut cache = self.cache.take().unwrap();
        let r = catch_unwind(AssertUnwindSafe(|| f(&mut cache)));
        self.cache = Some(cache);
        match r {
            Ok(r) => Some(r),
            Err(p) => {
                let msg = tracked::panic_message(&*p);
                self.fail(vec!["C07", "C02"], format!("panic:{}", name), format!("{} panicked: {}", name, msg));
                None
            },
        }
    }

    pub fn step(&mut self, op: &Op) {
        self.step += 1;
        if !self.fails.is_empty() {
            return;
        }
        match op {
            Op::Insert { key, kheap, size } => {
                let k = self.resolve_key(key);
                let kheap = K::kheap_of(k, *kheap as usize);
                let vheap = V::vheap_of(self.resolve_vheap(size, k, kheap, true));
                self.insert(k, kheap, vheap);
            },
            Op::InsertMany { count, vheap } => {
                let mut j = 0u16;
                for _ in 0..(*count).min(200) {
                    if !self.fails.is_empty() { break; }
                    match self.model.absent(j, self.cfg.universe) {
                        Some(k) => { j = k.wrapping_add(1); self.insert(k, K::kheap_of(k, 0), V::vheap_of(*vheap as usize)); },
                        None => break,
                    }
                }
            },
            Op::Get { key, form } | Op::GetEntry { key, form } | Op::Touch { key, form } => {
                let k = self.resolve_key(key);
                let got = match form {
                    Form::Owned => { let q = K::make(k, 0); self.run_op("get", |c| c.get::<K>(&q).map(|v| v.tag())) },
                    Form::Borrowed => self.run_op("get", |c| K::with_q(k, |q| c.get(q).map(|v| v.tag()))),
                };
                let pos = self.model.pos(k);
                let want = pos.map(|i| self.model.order[i].val_id);
                if let Some(g) = got {
                    mk!(self, g == want, ["C04"], "get", "get({}) = {:?}, expected {:?}", k, g, want);
                }
                if let Some(i) = pos { self.model.promote(i); }
                self.check_state("get", None);
            },
            Op::GetLru => {
                let got = self.run_op("get_lru", |c| c.get_lru().map(|(_, v)| v.tag()));
                let want = self.model.order.first().map(|e| e.val_id);
                if let Some(g) = got {
                    mk!(self, g == want, ["C05", "C04"], "get_lru", "get_lru = {:?}, expected {:?}", g, want);
                }
                if !self.model.order.is_empty() { self.model.promote(0); }
                self.check_state("get_lru", None);
            },
            Op::Peek { key, form } | Op::PeekEntry { key, form } | Op::Contains { key, form } => {
                let k = self.resolve_key(key);
                let fp = self.c().verif_fingerprint();
                let got = match form {
                    Form::Owned => { let q = K::make(k, 0); self.run_op("peek", |c| (c.peek::<K>(&q).map(|v| v.tag()), c.contains::<K>(&q), c.peek_entry::<K>(&q).map(|(_, v)| v.tag()))) },
                    Form::Borrowed => self.run_op("peek", |c| K::with_q(k, |q| (c.peek(q).map(|v| v.tag()), c.contains(q), c.peek_entry(q).map(|(_, v)| v.tag())))),
                };
                let want = self.model.get(k).map(|e| e.val_id);
                if let Some((a, b, c)) = got {
                    mk!(self, a == want && b == want.is_some() && c == want, ["C04"], "peek",
                        "peek/contains/peek_entry({}) = {:?}/{}/{:?}, expected {:?}", k, a, b, c, want);
                }
                let same = self.c().verif_fingerprint() == fp;
                mk!(self, same, ["C19"], "changed:peek", "peek/contains/peek_entry changed the internal structure");
                self.check_state("peek", None);
            },
            Op::PeekLru | Op::PeekMru | Op::Scalars | Op::Debug => {
                let fp = self.c().verif_fingerprint();
                let _ = self.run_op("peek_lru", |c| (c.peek_lru().map(|(_, v)| v.tag()), c.peek_mru().map(|(_, v)| v.tag()), c.len(), c.capacity()));
                let same = self.c().verif_fingerprint() == fp;
                mk!(self, same, ["C19"], "changed:peek_lru", "peek_lru/peek_mru/len/capacity changed the internal structure");
                self.check_state("peek_lru", None);
            },
            Op::Remove { key, form } | Op::RemoveEntry { key, form } => {
                let k = self.resolve_key(key);
                let got = match form {
                    Form::Owned => { let q = K::make(k, 0); self.run_op("remove_entry", |c| c.remove_entry::<K>(&q)) },
                    Form::Borrowed => self.run_op("remove_entry", |c| K::with_q(k, |q| c.remove_entry(q))),
                };
                let ent = self.model.pos(k).map(|i| self.model.remove_at(i));
                self.removed("remove_entry", got, ent);
            },
            Op::RemoveLru => {
                let got = self.run_op("remove_lru", |c| c.remove_lru());
                let ent = if self.model.len() > 0 { Some(self.model.remove_at(0)) } else { None };
                self.removed("remove_lru", got, ent);
            },
            Op::RemoveMru => {
                let got = self.run_op("remove_mru", |c| c.remove_mru());
                let n = self.model.len();
                let ent = if n > 0 { Some(self.model.remove_at(n - 1)) } else { None };
                self.removed("remove_mru", got, ent);
            },
            Op::Mutate { key, size, form } => {
                let k = self.resolve_key(key);
                let pos = self.model.pos(k);
                let kheap = pos.map(|i| self.model.order[i].kheap).unwrap_or(0);
                let new_vheap = V::vheap_of(self.resolve_vheap(size, k, kheap, true));
                let got = match form {
                    Form::Owned => { let q = K::make(k, 0); self.run_op("mutate", |c| c.mutate::<K, _, _>(&q, |v| { v.set_heap(new_vheap); 7u8 })) },
                    Form::Borrowed => self.run_op("mutate", |c| K::with_q(k, |q| c.mutate(q, |v| { v.set_heap(new_vheap); 7u8 }))),
                };
                let limit = self.model.limit;
                match (pos, got) {
                    (_, None) => return,
                    (None, Some(r)) => {
                        mk!(self, matches!(r, Ok(None)), ["C11"], "mutate-absent", "mutate of absent key {} did not return Ok(None)", k);
                        if let Err(lru_mem::MutateError::EntryTooLarge { key, value, .. }) = r { self.received_k(key, "mutate"); self.received_v(value, "mutate"); }
                    },
                    (Some(i), Some(r)) => {
                        let e = self.model.order[i].clone();
                        let grow = new_vheap > e.vheap;
                        let new_size = if grow { e.size + (new_vheap - e.vheap) } else { e.size - (e.vheap - new_vheap) };
                        if grow && new_size > limit {
                            match r {
                                Err(lru_mem::MutateError::EntryTooLarge { key, value, old_entry_size, new_entry_size, .. }) => {
                                    mk!(self, value.tag() == e.val_id && old_entry_size == e.size && new_entry_size == new_size, ["C11"], "mutate-err",
                                        "EntryTooLarge carries tag {} old {} new {}, expected {} {} {}", value.tag(), old_entry_size, new_entry_size, e.val_id, e.size, new_size);
                                    self.received_k(key, "mutate error");
                                    self.received_v(value, "mutate error");
                                },
                                Ok(_) => self.fail(vec!["C11", "C01"], "mutate-overflow-accepted".into(), format!("mutate grew entry {} beyond max_size but returned Ok", k)),
                            }
                            self.model.remove_at(i);
                        }
                        else {
                            match r {
                                Ok(Some(7)) => { },
                                Ok(o) => self.fail(vec!["C11"], "mutate-ret".into(), format!("mutate returned {:?}", o)),
                                Err(lru_mem::MutateError::EntryTooLarge { key, value, .. }) => {
                                    self.fail(vec!["C11"], "mutate-spurious".into(), format!("mutate of {} to size {} failed although max_size is {}", k, new_size, limit));
                                    self.received_k(key, "mutate"); self.received_v(value, "mutate");
                                    self.leaks_allowed = true;
                                    return;
                                },
                            }
                            self.model.order[i].vheap = new_vheap;
                            self.model.set_size(i, new_size);
                            self.model.promote(i);
                            let ev = if grow { self.model.evict_to(limit) } else { vec![] };
                            self.expect_dropped(&ev, "evicted by mutate");
                        }
                    },
                }
                self.check_state("mutate", Some("C11"));
            },
            Op::SetMaxSize(l) => {
                let m = &self.model;
                let new_limit = match *l {
                    LimSel::Zero => 0,
                    LimSel::Abs(n) => n as usize,
                    LimSel::CurPlus(d) => m.total().saturating_add_signed(d as isize),
                    LimSel::KeepMru(n, d) => m.order.iter().rev().take(n as usize).map(|e| e.size).sum::<usize>().saturating_add_signed(d as isize),
                    LimSel::Ents(n, d) => (n as usize * self.e0).saturating_add_signed(d as isize),
                    LimSel::Max => usize::MAX,
                    LimSel::MaxMinus(d) => usize::MAX - d as usize,
                    LimSel::Pow(e, d) => (1usize << e.min(63)).saturating_add_signed(d as isize),
                    LimSel::ThreeQuarters(d) => ((1usize << 63) + (1usize << 62)).saturating_add_signed(d as isize),
                };
                if self.run_op("set_max_size", |c| c.set_max_size(new_limit)).is_none() { return; }
                let ev = self.model.evict_to(new_limit);
                self.model.limit = new_limit;
                self.expect_dropped(&ev, "evicted by set_max_size");
                self.check_state("set_max_size", None);
            },
            Op::Retain { mask, by_key } => {
                let (mask, by_key) = (*mask, *by_key);
                let order = self.model.order.clone();
                let mut seen: Vec<u16> = Vec::new();
                let seen_ref = &mut seen;
                let r = self.run_op("retain", |c| {
                    let mut visit = 0u64;
                    c.retain(|k, _| {
                        seen_ref.push(k.k());
                        let bit = if by_key { k.k() as u64 % 64 } else { visit % 64 };
                        visit += 1;
                        mask >> bit & 1 == 1
                    })
                });
                if r.is_none() { return; }
                let want: Vec<u16> = order.iter().map(|e| e.k).collect();
                mk!(self, seen == want, ["C15"], "retain-visits", "retain visited {:?}, expected {:?}", brief(&seen), brief(&want));
                let mut kept = Vec::new();
                let mut gone = Vec::new();
                for (i, e) in order.iter().enumerate() {
                    let bit = if by_key { e.k as u64 % 64 } else { i as u64 % 64 };
                    if mask >> bit & 1 == 1 { kept.push(e.clone()); } else { gone.push(e.clone()); }
                }
                self.model.replace_all(kept);
                self.expect_dropped(&gone, "rejected by retain");
                self.check_state("retain", Some("C15"));
            },
            Op::Clear => {
                if self.run_op("clear", |c| c.clear()).is_none() { return; }
                let gone = self.model.clear();
                self.expect_dropped(&gone, "clear");
                self.events.insert("clear".into());
                self.check_state("clear", None);
            },
            Op::Reserve(a) => {
                let n = match *a { CapArg::Abs(n) => n as usize % 300, CapArg::LenPlus(d) => self.model.len().saturating_add_signed(d as isize), CapArg::Pow2Plus(e, _) => 1usize << (e % 9), _ => 1 };
                if self.run_op("reserve", |c| c.reserve(n)).is_none() { return; }
                self.check_state("reserve", Some("C13"));
            },
            Op::TryReserve { .. } | Op::ShrinkTo(_) | Op::ShrinkToFit => {
                if self.run_op("shrink_to_fit", |c| c.shrink_to_fit()).is_none() { return; }
                self.check_state("shrink_to_fit", Some("C13"));
            },
            Op::Clone(mode) => {
                let fp = self.c().verif_fingerprint();
                let cl = self.run_op("clone", |c| c.clone());
                let same = self.c().verif_fingerprint() == fp;
                mk!(self, same, ["C19", "C14"], "changed:clone", "clone() changed the source's internal structure (len {})", self.model.len());
                self.check_state("clone", Some("C14"));
                let cl = match cl { Some(c) => c, None => return };
                if !self.fails.is_empty() {
                    std::mem::forget(cl);
                    self.leaks_allowed = true;
                    return;
                }
                // contents of the clone (values of a tracked clone have fresh ids)
                let src: Vec<(u16, usize)> = self.c().iter().map(|(k, v)| (k.k(), v.vheap())).collect();
                let got: Vec<(u16, usize)> = match cl.verif_structure() {
                    Ok(_) => cl.iter().map(|(k, v)| (k.k(), v.vheap())).collect(),
                    Err(e) => { self.fail(vec!["C14", "C07"], "clone-structure".into(), format!("clone has a broken structure: {}", e)); vec![] },
                };
                mk!(self, src == got || !self.fails.is_empty(), ["C14"], "clone-differs", "clone lists {:?}, source {:?}", brief(&got), brief(&src));
                // own copies, made by Clone::clone
                if self.fails.is_empty() {
                    let gens_src: Vec<(Option<u16>, Option<u16>)> = self.c().iter().map(|(k, v)| (k.gen(), v.gen())).collect();
                    let gens_cl: Vec<(Option<u16>, Option<u16>)> = cl.iter().map(|(k, v)| (k.gen(), v.gen())).collect();
                    let ok = gens_src.iter().zip(&gens_cl).all(|(a, b)|
                        a.0.map(|g| Some(g + 1) == b.0).unwrap_or(true) && a.1.map(|g| Some(g + 1) == b.1).unwrap_or(true));
                    mk!(self, ok, ["C14"], "clone-not-cloned", "clone() did not produce its keys/values through Clone::clone (clone generations {:?} vs source {:?})", brief(&gens_cl), brief(&gens_src));
                }
                let (cs, cc) = (cl.current_size(), self.c().current_size());
                mk!(self, cs == cc && cl.capacity() >= self.c().capacity(), ["C14"], "clone-scalars", "clone current_size {} vs {}, capacity {} vs {}", cs, cc, cl.capacity(), self.c().capacity());
                if !self.fails.is_empty() {
                    std::mem::forget(cl);
                    self.leaks_allowed = true;
                    return;
                }
                self.events.insert(format!("clone-len{}", self.model.len().min(2)));
                if *mode == CloneMode::Swap {
                    // continue on the clone: adopt its identities
                    let tags: Vec<(u64, u64)> = cl.iter().map(|(k, v)| (k.tid(), v.tag())).collect();
                    let old = self.cache.replace(cl);
                    let old_ents = self.model.order.clone();
                    drop(old);
                    self.collect_vios("dropping the source");
                    self.expect_dropped(&old_ents, "dropping the clone's source");
                    for (e, (kid, tag)) in self.model.order.iter_mut().zip(tags) {
                        e.key_id = kid;
                        e.val_id = tag;
                    }
                    self.check_state("clone-swap", Some("C14"));
                }
                else {
                    drop(cl);
                    self.check_state("clone-drop", Some("C14"));
                }
            },
            Op::IterWalk { kind, calls, rest, fate } => self.walk(*kind, calls, *rest, *fate),
            Op::TryInsert { key, kheap, size } => {
                let k = self.resolve_key(key);
                let kheap = K::kheap_of(k, *kheap as usize);
                let vheap = V::vheap_of(self.resolve_vheap(size, k, kheap, false));
                self.try_insert(k, kheap, vheap);
            },
            Op::Churn { .. } | Op::Side(_) | Op::Inject { .. } => { },
        }
    }

    fn try_insert(&mut self, k: u16, kheap: usize, vheap: usize) {
        let limit = self.model.limit;
        let total = self.model.total();
        let tag = self.fresh_tag();
        let key = K::make(k, kheap);
        let val = V::make(tag, vheap);
        // the public size function is the reference for every figure below
        let entry = lru_mem::entry_size(&key, &val);
        let (kid, tag) = (key.tid(), val.tag());
        let present = self.model.contains(k);
        let fp = self.c().verif_fingerprint();
        let r = match self.run_op("try_insert", move |c| c.try_insert(key, val)) { Some(r) => r, None => return };
        let want = if entry > limit { "too-large" } else if entry > limit - total.min(limit) { "would-eject" } else if present { "occupied" } else { "ok" };
        use lru_mem::TryInsertError as E;
        let got = match &r { Ok(()) => "ok", Err(E::EntryTooLarge { .. }) => "too-large", Err(E::WouldEjectLru { .. }) => "would-eject", Err(E::OccupiedEntry { .. }) => "occupied" };
        mk!(self, got == want, ["C10"], format!("try_insert-outcome:{}:{}", want, got),
            "try_insert of key {} (present {}) with entry_size {} into current {} / max {}: outcome {}, expected {}", k, present, entry, total, limit, got, want);
        match r {
            Ok(()) => {
                if got == want {
                    self.model.push(Ent { k, key_id: kid, val_id: tag, kheap, vheap, tag: 0, size: entry });
                }
                else {
                    self.leaks_allowed = true;
                    return;
                }
            },
            Err(e) => {
                match &e {
                    E::EntryTooLarge { entry_size, max_size, .. } =>
                        mk!(self, *entry_size == entry && *max_size == limit, ["C10"], "try_insert-err-fields", "EntryTooLarge reports entry_size {} max_size {}, actual {} {}", entry_size, max_size, entry, limit),
                    E::WouldEjectLru { entry_size, free_memory, .. } =>
                        mk!(self, *entry_size == entry && *free_memory == limit - total.min(limit), ["C10"], "try_insert-err-fields", "WouldEjectLru reports entry_size {} free_memory {}, actual {} {}", entry_size, free_memory, entry, limit - total.min(limit)),
                    E::OccupiedEntry { .. } => { },
                }
                let (rk, rv) = e.into_entry();
                mk!(self, rk.k() == k && rv.tag() == tag, ["C10"], "try_insert-err-identity", "the error does not carry the pair that was passed");
                self.received_k(rk, "try_insert error");
                self.received_v(rv, "try_insert error");
                let same = self.c().verif_fingerprint() == fp;
                mk!(self, same, ["C10"], "try_insert-changed", "a rejected try_insert changed the cache");
            },
        }
        let nf = self.fails.len();
        self.check_state("try_insert", None);
        for f in self.fails.iter_mut().skip(nf) { if !f.has("C10") { f.tags.push("C10"); } }
    }

    fn insert(&mut self, k: u16, kheap: usize, vheap: usize) {
        let limit = self.model.limit;
        let entry = self.e0 + kheap + vheap;
        let tag = self.fresh_tag();
        let key = K::make(k, kheap);
        let val = V::make(tag, vheap);
        let public = lru_mem::entry_size(&key, &val);
        if public != entry {
            // the harness' own size model does not hold for this instantiation: not a verdict
            self.events.insert("size-model-mismatch".into());
            self.leaks_allowed = true;
            return;
        }
        let (kid, tag) = (key.tid(), val.tag());
        let r = match self.run_op("insert", move |c| c.insert(key, val)) { Some(r) => r, None => return };
        match r {
            Err(lru_mem::InsertError::EntryTooLarge { key, value, entry_size, max_size }) => {
                mk!(self, entry > limit, ["C10"], "insert-spurious", "insert of size {} failed, max_size {}", entry, limit);
                mk!(self, entry_size == entry && max_size == limit, ["C10"], "insert-err-fields", "EntryTooLarge reports entry_size {} max_size {}, actual {} {}", entry_size, max_size, entry, limit);
                self.received_k(key, "insert error");
                self.received_v(value, "insert error");
            },
            Ok(old) => {
                if entry > limit {
                    self.fail(vec!["C10", "C01"], "insert-accepted".into(), format!("insert accepted size {} > max_size {}", entry, limit));
                    self.leaks_allowed = true;
                    return;
                }
                let replaced = self.model.pos(k).map(|i| self.model.remove_at(i));
                let ev = self.model.evict_to(limit - entry);
                self.model.push(Ent { k, key_id: kid, val_id: tag, kheap, vheap, tag: 0, size: entry });
                match (&replaced, old) {
                    (Some(r), Some(v)) => {
                        mk!(self, v.tag() == r.val_id, ["C04", "C06"], "insert-old", "insert returned old tag {}, expected {}", v.tag(), r.val_id);
                        self.received_v(v, "insert");
                    },
                    (None, None) => { },
                    (Some(r), None) => self.fail(vec!["C04"], "insert-lost-old".into(), format!("insert of present key {} did not return old tag {}", k, r.val_id)),
                    (None, Some(v)) => { self.fail(vec!["C04"], "insert-phantom".into(), format!("insert of absent key {} returned a value", k)); self.received_v(v, "insert"); },
                }
                if let Some(r) = &replaced {
                    if K::TRACKED {
                        let st = tracked::obj(r.key_id).map(|o| o.st);
                        mk!(self, st == Some(St::Dropped), ["C06"], "insert-old-key", "replaced key id {} is {:?}", r.key_id, st);
                    }
                }
                self.expect_dropped(&ev, "evicted by insert");
            },
        }
        self.check_state("insert", None);
    }

    fn removed(&mut self, name: &'static str, got: Option<Option<(K, V)>>, ent: Option<Ent>) {
        let got = match got { Some(g) => g, None => return };
        match (ent, got) {
            (None, None) => { },
            (Some(e), Some((k, v))) => {
                mk!(self, v.tag() == e.val_id && k.k() == e.k, ["C04", "C06"], "remove", "{} returned ({}, tag {}), expected ({}, tag {})", name, k.k(), v.tag(), e.k, e.val_id);
                self.received_k(k, name);
                self.received_v(v, name);
            },
            (None, Some((k, v))) => { self.fail(vec!["C04"], "remove-phantom".into(), format!("{} returned an entry for an absent key", name)); self.received_k(k, name); self.received_v(v, name); },
            (Some(e), None) => self.fail(vec!["C04"], "remove-missed".into(), format!("{} did not find key {}", name, e.k)),
        }
        self.check_state(name, None);
    }

    fn walk(&mut self, kind: IterKind, calls: &[Call], rest: Rest, fate: Fate) {
        let order = self.model.order.clone();
        let len = order.len();
        let plan = plan_walk(calls, rest, len);
        let fate = if plan.fin.finishing() || matches!(fate, Fate::Unwind(_)) { Fate::Drop } else { fate };
        let exp = expect_walk(&plan, len);
        let yielded: BTreeSet<usize> = exp.yielded.clone();
        let forget = fate == Fate::Forget;
        let fp = self.c().verif_fingerprint();
        // got: (key k, value tag) halves as available; size_hint answers are not recorded
        type Half = (Option<u16>, Option<u64>);
        let mut got: Vec<Option<Option<Half>>> = Vec::new();
        let mut fin_got: Vec<Half> = Vec::new();
        let mut fin_count: Option<usize> = None;
        let mut taken_k: Vec<K> = Vec::new();
        let mut taken_v: Vec<V> = Vec::new();
        let consuming = kind.consuming();
        let limit = self.model.limit;
        let mut cache = self.cache.take().unwrap();
        let r = {
            let got = &mut got;
            let fin_got = &mut fin_got;
            let fin_count = &mut fin_count;
            let tk = &mut taken_k;
            let tv = &mut taken_v;
            let plan = &plan;
            catch_unwind(AssertUnwindSafe(move || -> Option<LruCache<K, V, S>> {
                macro_rules! drive {
                    ($it:expr, $f:expr) => {{
                        let mut f = $f;
                        drive_walk($it, plan, forget, |o| match o {
                            WalkOut::Item(x) => got.push(Some(x.map(&mut f))),
                            WalkOut::Hint(..) => got.push(None),
                            WalkOut::Fin(x) => fin_got.push(f(x)),
                            WalkOut::Count(n) => *fin_count = Some(n),
                            WalkOut::Panicked => got.push(None),
                        });
                    }};
                }
                match kind {
                    IterKind::Iter => { drive!(cache.iter(), |(k, v): (&K, &V)| (Some(k.k()), Some(v.tag()))); Some(cache) },
                    IterKind::Keys => { drive!(cache.keys(), |k: &K| (Some(k.k()), None)); Some(cache) },
                    IterKind::Values => { drive!(cache.values(), |v: &V| (None, Some(v.tag()))); Some(cache) },
                    IterKind::Drain => { drive!(cache.drain(), |(k, v): (K, V)| { let r = (Some(k.k()), Some(v.tag())); tk.push(k); tv.push(v); r }); Some(cache) },
                    IterKind::IntoIter => { drive!(cache.into_iter(), |(k, v): (K, V)| { let r = (Some(k.k()), Some(v.tag())); tk.push(k); tv.push(v); r }); None },
                    IterKind::IntoKeys => { drive!(cache.into_keys(), |k: K| { let r = (Some(k.k()), None); tk.push(k); r }); None },
                    IterKind::IntoValues => { drive!(cache.into_values(), |v: V| { let r = (None, Some(v.tag())); tv.push(v); r }); None },
                }
            }))
        };
        let back = match r {
            Ok(c) => c,
            Err(p) => {
                let msg = tracked::panic_message(&*p);
                self.fail(vec!["C12", "C07"], "panic:iterwalk".into(), format!("{} panicked: {}", kind.name(), msg));
                self.leaks_allowed = true;
                for k in taken_k { std::mem::forget(k); }
                for v in taken_v { std::mem::forget(v); }
                self.cache = Some(S::construct(limit, None, self.cfg.hasher));
                self.model.clear();
                return;
            },
        };
        let tags12: Vec<&'static str> = if forget { vec!["C12", "C17"] } else { vec!["C12"] };
        let exhausted_at = exp.exhausted_at;
        let want_of = |p: usize| -> Half { match kind {
            IterKind::Keys | IterKind::IntoKeys => (Some(order[p].k), None),
            IterKind::Values | IterKind::IntoValues => (None, Some(order[p].val_id)),
            _ => (Some(order[p].k), Some(order[p].val_id)),
        } };
        let mut ok = true;
        for (n, (e, g)) in exp.per_call.iter().zip(got.iter()).enumerate() {
            if exhausted_at.map(|x| n > x).unwrap_or(false) && !kind.fused() { continue; }
            let g = match g { Some(g) => g, None => continue };
            let want = e.map(want_of);
            if *g != want {
                ok = false;
                self.fail(tags12.clone(), format!("walk:{}", kind.name()), format!("{} call #{} ({}) returned {:?}, expected {:?} (len {}, calls {})",
                    kind.name(), n + 1, plan.calls[n].letter(), g, want, len, calls_text(&plan.calls)));
                break;
            }
        }
        if ok && plan.fin.finishing() && (exhausted_at.is_none() || kind.fused()) {
            let want: Vec<Half> = exp.fin_items.iter().map(|&p| want_of(p)).collect();
            if fin_count != exp.fin_count || fin_got != want {
                self.fail(tags12.clone(), format!("walk-fin:{}", kind.name()), format!("{} after calls {}: {} gave {:?} / count {:?}, expected {:?} / {:?} (len {})",
                    kind.name(), calls_text(&plan.calls), plan.fin.to_text(), fin_got, fin_count, want, exp.fin_count, len));
            }
        }
        for k in taken_k { self.received_k(k, kind.name()); }
        for v in taken_v { self.received_v(v, kind.name()); }
        self.collect_vios(kind.name());
        let unyielded: Vec<Ent> = order.iter().enumerate().filter(|(p, _)| !yielded.contains(p)).map(|(_, e)| e.clone()).collect();
        if kind.borrowing() {
            self.cache = back;
            let same = self.c().verif_fingerprint() == fp;
            mk!(self, same, ["C19", "C12"], "changed:iter", "{} changed the internal structure", kind.name());
            self.check_state("iterwalk", Some("C12"));
            return;
        }
        if consuming {
            self.cache = Some(S::construct(limit, None, self.cfg.hasher));
            self.model.clear();
            if forget { self.leaks_allowed = true; } else { self.expect_dropped(&unyielded, "not consumed from owning iterator"); }
            self.events.insert(format!("into-{}", if forget { "forget" } else { "drop" }));
            self.check_state("into_iter", Some("C12"));
            return;
        }
        // drain
        self.cache = back;
        if forget {
            self.leaks_allowed = true;
            self.events.insert(format!("drain-forget-y{}", yielded.len().min(2)));
            // valid, usable, and lists nothing that was handed out
            match self.c().verif_structure() {
                Err(e) => { self.fail(vec!["C17", "C07"], "structure".into(), format!("after a forgotten drain: {}", e)); return; },
                Ok(s) => {
                    let items: Vec<(u16, u64, usize, usize, u64)> = self.c().iter().map(|(k, v)| (k.k(), v.tag(), k.kheap(), v.vheap(), k.tid())).collect();
                    let handed: BTreeSet<u64> = yielded.iter().map(|&p| order[p].val_id).collect();
                    for it in &items {
                        if handed.contains(&it.1) {
                            self.fail(vec!["C17"], "lists-handed-out".into(),
                                format!("after forgetting a drain that had yielded {} entries the cache still lists the handed-out entry (key {}, tag {})", handed.len(), it.0, it.1));
                            return;
                        }
                    }
                    let ents: Vec<Ent> = items.iter().zip(s.sizes.iter()).map(|(it, sz)| Ent { k: it.0, key_id: it.4, val_id: it.1, kheap: it.2, vheap: it.3, tag: 0, size: *sz }).collect();
                    self.model.replace_all(ents);
                },
            }
            let nf = self.fails.len();
            self.check_state("drain-forget", Some("C17"));
            for f in self.fails.iter_mut().skip(nf) { if !f.has("C17") { f.tags.push("C17"); } }
        }
        else {
            self.model.clear();
            self.expect_dropped(&unyielded, "not consumed from drain");
            self.check_state("drain", Some("C12"));
        }
    }

    pub fn finish(&mut self) {
        let c = self.cache.take();
        let r = catch_unwind(AssertUnwindSafe(move || drop(c)));
        if r.is_err() {
            self.fail(vec!["C06", "C07"], "panic-in-drop".into(), "dropping the cache panicked".into());
        }
        self.collect_vios("dropping the cache");
        if !self.leaks_allowed && self.fails.is_empty() {
            let leaked: Vec<u64> = tracked::live_ids().iter().map(|(i, _)| *i).collect();
            if !leaked.is_empty() {
                self.fail(vec!["C06"], "leak".into(), format!("{} tracked objects were never dropped, e.g. ids {:?}", leaked.len(), &leaked[..leaked.len().min(6)]));
            }
        }
    }
}

pub const VARIANTS: [&str; 16] = [
    "trackedkey+zstval+statefulhasher", "stringkey+zstval+defaulthasher",
    "stringkey+trackedval+statefulhasher", "stringkey+indirectval+defaulthasher", "trackedkey+indirectval+zsthasher",
    "plainkey+alignedval+statefulhasher", "alignedkey+trackedval+defaulthasher",
    "trackedkey+trackedval+defaulthasher", "plainkey+plainval+defaulthasher",
    "trackedkey+plainval+statefulhasher", "plainkey+trackedval+statefulhasher", "plainkey+plainval+statefulhasher",
    "trackedkey+trackedval+zsthasher", "trackedkey+plainval+zsthasher", "plainkey+trackedval+zsthasher", "plainkey+plainval+zsthasher",
];

pub struct VariantOutcome {
    pub fails: Vec<Failure>,
    pub steps: u64,
    pub events: BTreeSet<String>,
}

fn run_one<K: VK + std::borrow::Borrow<K::Q>, V: VV, S: VS>(case: &Case) -> VariantOutcome {
    let mut m = Mini::<K, V, S>::new(&case.config);
    for op in &case.ops {
        m.step(op);
        if !m.fails.is_empty() { break; }
    }
    m.finish();
    VariantOutcome { fails: std::mem::take(&mut m.fails), steps: m.steps, events: std::mem::take(&mut m.events) }
}

pub fn run_variant(name: &str, case: &Case) -> Option<VariantOutcome> {
    Some(match name {
        "trackedkey+zstval+statefulhasher" => run_one::<TKey, ZVal, VHasher>(case),
        "stringkey+zstval+defaulthasher" => run_one::<String, ZVal, hashbrown::hash_map::DefaultHashBuilder>(case),
        "stringkey+trackedval+statefulhasher" => run_one::<String, TVal, VHasher>(case),
        "stringkey+indirectval+defaulthasher" => run_one::<String, IVal, hashbrown::hash_map::DefaultHashBuilder>(case),
        "trackedkey+indirectval+zsthasher" => run_one::<TKey, IVal, ZHasher>(case),
        "plainkey+alignedval+statefulhasher" => run_one::<PKey, AVal, VHasher>(case),
        "alignedkey+trackedval+defaulthasher" => run_one::<AKey, TVal, hashbrown::hash_map::DefaultHashBuilder>(case),
        "trackedkey+trackedval+defaulthasher" => run_one::<TKey, TVal, hashbrown::hash_map::DefaultHashBuilder>(case),
        "plainkey+plainval+defaulthasher" => run_one::<PKey, PVal, hashbrown::hash_map::DefaultHashBuilder>(case),
        "trackedkey+plainval+statefulhasher" => run_one::<TKey, PVal, VHasher>(case),
        "plainkey+trackedval+statefulhasher" => run_one::<PKey, TVal, VHasher>(case),
        "plainkey+plainval+statefulhasher" => run_one::<PKey, PVal, VHasher>(case),
        "trackedkey+trackedval+zsthasher" => run_one::<TKey, TVal, ZHasher>(case),
        "trackedkey+plainval+zsthasher" => run_one::<TKey, PVal, ZHasher>(case),
        "plainkey+trackedval+zsthasher" => run_one::<PKey, TVal, ZHasher>(case),
        "plainkey+plainval+zsthasher" => run_one::<PKey, PVal, ZHasher>(case),
        _ => return None,
    })
}
