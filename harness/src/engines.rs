//! Worker engines: each explores part of a property's space in one process
//! and returns an `Accum`.

use std::cell::RefCell;
use std::path::Path;

use proptest::test_runner::{Config as PtConfig, RngSeed, TestCaseError, TestError, TestRunner};

use crate::gen::{self, PanicCase, Profile};
use crate::hashers::ALL_HKINDS;
use crate::interp::{Failure, World};
use crate::ops::*;
use crate::runner::*;
use crate::tracked::{Cb, NCB};

pub struct WorkerArgs<'a> {
    pub prop: &'static str,
    pub thorough: bool,
    pub seed: u64,
    pub index: u64,
    pub nworkers: u64,
    pub cases: u32,
    pub out: &'a Path,
    pub known: &'a [Known],
}

fn derive_seed(seed: u64, index: u64, salt: u64) -> u64 {
    // splitmix64 over (seed, index, salt)
    let mut z = seed.wrapping_add(index.wrapping_mul(0x9E37_79B9_7F4A_7C15)).wrapping_add(salt.wrapping_mul(0xD1B5_4A32_D192_ED03));
    z = (z ^ (z >> 30)).wrapping_mul(0xBF58_476D_1CE4_E5B9);
    z = (z ^ (z >> 27)).wrapping_mul(0x94D0_49BB_1331_11EB);
    z ^ (z >> 31)
}

fn pt_config(cases: u32, seed: u64) -> PtConfig {
    PtConfig {
        cases,
        failure_persistence: None,
        rng_seed: RngSeed::Fixed(seed),
        max_shrink_iters: 3000,
        max_global_rejects: 1,
        verbose: 0,
        ..PtConfig::default()
    }
}

/// Random exploration of the cache family with the property's profile.
pub fn worker_cache(a: &WorkerArgs) -> Accum {
    let profile = Profile::for_property(a.prop, a.thorough);
    worker_cache_with(a, &profile, 1)
}

/// Near-capacity random walks over fixed-size tables (see `gen::dense_case`).
pub fn worker_dense(a: &WorkerArgs) -> Accum {
    worker_cache_strategy(a, gen::dense_case(), 31)
}

pub fn worker_cache_with(a: &WorkerArgs, profile: &Profile, salt: u64) -> Accum {
    worker_cache_strategy(a, gen::case(profile), salt)
}

pub fn worker_cache_strategy(a: &WorkerArgs, strategy: proptest::strategy::BoxedStrategy<Case>, salt: u64) -> Accum {
    let acc = RefCell::new(Accum::default());
    let failed = RefCell::new(false);
    let mut runner = TestRunner::new(pt_config(a.cases, derive_seed(a.seed, a.index, salt)));
    let prop = a.prop;
    let result = runner.run(&strategy, |case| {
        write_current(a.out, &case.to_text());
        let out = run_case(&case, Some(prop), false);
        match judge(&out.fails, prop, a.known) {
            Verdict::Pass => {
                if !*failed.borrow() {
                    acc.borrow_mut().add_case(prop, &out.stats, || sample_text(&case));
                }
                Ok(())
            },
            Verdict::Known(sig) => {
                if !*failed.borrow() {
                    let mut acc = acc.borrow_mut();
                    acc.cases += 1;
                    *acc.known.entry(sig).or_insert(0) += 1;
                }
                Ok(())
            },
            Verdict::Foreign(sig) => {
                if !*failed.borrow() {
                    let mut acc = acc.borrow_mut();
                    acc.cases += 1;
                    *acc.foreign.entry(sig).or_insert(0) += 1;
                }
                Ok(())
            },
            Verdict::Violation(f) => {
                *failed.borrow_mut() = true;
                Err(TestCaseError::fail(format!("[{}] {}", f.sig, f.msg)))
            },
        }
    });
    let mut acc = acc.into_inner();
    match result {
        Ok(()) => { },
        Err(TestError::Fail(_, case)) => {
            let out = run_case(&case, Some(prop), true);
            let f: Option<Failure> = out.fails.iter().find(|f| f.has(prop)).cloned();
            let mut case = case;
            if let Some(f) = &f {
                // operations after the failing step never ran
                case.ops.truncate(f.step);
            }
            acc.violations.push(Violation {
                replay_text: replay_text(prop, &case, f.as_ref(), &out.trace),
                msg: f.as_ref().map(|f| f.msg.clone()).unwrap_or_else(|| "failure did not reproduce on re-run".into()),
                sig: f.as_ref().map(|f| f.sig.clone()).unwrap_or_default(),
            });
        },
        Err(TestError::Abort(r)) => acc.notes.push(format!("proptest aborted: {}", r)),
    }
    acc
}

// ---------------------------------------------------------------- C16

/// Number of callbacks per kind the victim makes in the state the prefix
/// leads to (counting mode).
fn count_callbacks(pc: &PanicCase) -> Option<[u64; NCB]> {
    let mut w = World::new(&pc.config, Some("C16"));
    for op in &pc.prefix {
        w.step(op);
        if !w.fails.is_empty() {
            w.leaks_allowed = true;
            w.finish();
            return None;
        }
    }
    w.last_counts = [0; NCB];
    w.step(&pc.victim);
    let c = w.last_counts;
    w.leaks_allowed = true;
    w.finish();
    Some(c)
}

/// Every crash point up to the 40th call; beyond that the batch / power-of-two
/// boundaries, the middle and the last calls (an operation on a big cache makes
/// thousands of calls of one kind).
fn crash_points(count: u64) -> Vec<u64> {
    let mut v: Vec<u64> = (1..=count.min(40)).collect();
    if count > 40 {
        for p in [63u64, 64, 65, 66, 127, 128, 129, 130, 255, 256, 257, 511, 512, 513, 1023, 1024, 1025, 1026, 2047, 2048, 2049, count / 2, count - 2, count - 1, count] {
            if p > 40 && p <= count && p < 60000 && !v.contains(&p) {
                v.push(p);
            }
        }
    }
    v
}

fn derived(pc: &PanicCase, cb: Cb, nth: u16) -> Case {
    let mut ops = pc.prefix.clone();
    ops.push(Op::Inject { cb, nth, late: pc.late });
    ops.push(pc.victim.clone());
    ops.extend(pc.suffix.iter().cloned());
    Case { config: pc.config.clone(), ops }
}

/// `drops`: enumerate the crash points inside *destructors* (of what the victim
/// evicts, rejects, skips or drops) instead of those of the callbacks C16 lists.
pub fn worker_panic(a: &WorkerArgs, drops: bool) -> Accum {
    let strategy = gen::panic_case(drops);
    // the faults C16 does not enumerate: destructor panics, and user code that
    // operates another cache from inside `Hash` (counted by the `Hash` calls)
    let kinds: Vec<Cb> = gen::PANIC_KINDS.iter().copied().filter(|k| (k.is_drop() || *k == Cb::Reenter) == drops).collect();
    let count_of = |counts: &[u64; NCB], cb: Cb| if cb == Cb::Reenter { counts[Cb::Hash.idx()] } else { counts[cb.idx()] };
    let acc = RefCell::new(Accum::default());
    let failed = RefCell::new(false);
    let last_fail: RefCell<Option<(Case, Failure)>> = RefCell::new(None);
    let mut runner = TestRunner::new(pt_config(a.cases, derive_seed(a.seed, a.index, 16)));
    let prop = a.prop;
    let result = runner.run(&strategy, |pc| {
        let counts = match count_callbacks(&pc) {
            Some(c) => c,
            None => {
                if !*failed.borrow() {
                    *acc.borrow_mut().foreign.entry("prefix-failed".into()).or_insert(0) += 1;
                }
                return Ok(());
            },
        };
        for &cb in &kinds {
            for n in crash_points(count_of(&counts, cb)) {
                let case = derived(&pc, cb, n as u16);
                write_current(a.out, &case.to_text());
                let out = run_case(&case, Some(prop), false);
                match judge(&out.fails, prop, a.known) {
                    Verdict::Pass => {
                        if !*failed.borrow() {
                            let mut acc = acc.borrow_mut();
                            acc.add_case(prop, &out.stats, || sample_text(&case));
                            *acc.events.entry(format!("inject.{}.{}", pc.victim.name(), cb.name())).or_insert(0) += 1;
                        }
                    },
                    Verdict::Known(sig) => {
                        if !*failed.borrow() {
                            let mut acc = acc.borrow_mut();
                            acc.cases += 1;
                            *acc.known.entry(sig).or_insert(0) += 1;
                        }
                    },
                    Verdict::Foreign(sig) => {
                        if !*failed.borrow() {
                            let mut acc = acc.borrow_mut();
                            acc.cases += 1;
                            *acc.foreign.entry(sig).or_insert(0) += 1;
                        }
                    },
                    Verdict::Violation(f) => {
                        *failed.borrow_mut() = true;
                        let msg = format!("[{}] {}", f.sig, f.msg);
                        *last_fail.borrow_mut() = Some((case, f));
                        return Err(TestCaseError::fail(msg));
                    },
                }
            }
        }
        Ok(())
    });
    let mut acc = acc.into_inner();
    match result {
        Ok(()) => { },
        Err(TestError::Fail(_, pc)) => {
            // find the failing injection point of the minimal case again
            let mut found = None;
            if let Some(counts) = count_callbacks(&pc) {
                'outer: for &cb in &kinds {
                    for n in crash_points(count_of(&counts, cb)) {
                        let case = derived(&pc, cb, n as u16);
                        let out = run_case(&case, Some(prop), true);
                        if let Verdict::Violation(f) = judge(&out.fails, prop, a.known) {
                            found = Some((case, f, out.trace));
                            break 'outer;
                        }
                    }
                }
            }
            match found {
                Some((case, f, trace)) => acc.violations.push(Violation {
                    replay_text: replay_text(prop, &case, Some(&f), &trace), msg: f.msg.clone(), sig: f.sig.clone() }),
                None => {
                    if let Some((case, f)) = last_fail.into_inner() {
                        acc.violations.push(Violation {
                            replay_text: replay_text(prop, &case, Some(&f), &[]), msg: f.msg.clone(), sig: f.sig.clone() });
                    }
                },
            }
        },
        Err(TestError::Abort(r)) => acc.notes.push(format!("proptest aborted: {}", r)),
    }
    acc
}

// ------------------------------------------------------- C12 / C17 walks

fn all_patterns(max_len: usize) -> Vec<Vec<bool>> {
    let mut out = vec![vec![]];
    for l in 1..=max_len {
        for bits in 0u32..(1 << l) {
            out.push((0..l).map(|i| bits >> i & 1 == 1).collect());
        }
    }
    out
}

/// Builds a cache of `len` entries of mixed sizes with a recency permutation
/// derived from `salt`.
fn build_ops(len: usize, salt: u64) -> Vec<Op> {
    let mut ops = Vec::new();
    for i in 0..len {
        ops.push(Op::Insert {
            key: KeySel::Raw(i as u16),
            kheap: ((salt >> i) & 1) as u8,
            size: SizeSel::Abs(((salt >> (2 * i)) % 5) as u32 * 3),
        });
    }
    // shuffle recency with a few touches
    let mut s = salt;
    for _ in 0..len {
        s = s.wrapping_mul(6364136223846793005).wrapping_add(1442695040888963407);
        if len > 0 && (s >> 33) & 1 == 1 {
            ops.push(Op::Get { key: KeySel::Raw(((s >> 40) % len as u64) as u16), form: Form::Owned });
        }
    }
    // a removal + reinsert now and then so that tables carry tombstones
    if len >= 3 && salt & 4 == 4 {
        ops.push(Op::Remove { key: KeySel::Raw(1), form: Form::Borrowed });
        ops.push(Op::Insert { key: KeySel::Raw(1), kheap: 0, size: SizeSel::Abs(2) });
    }
    ops
}

/// Exhaustive small scope: every iterator kind, every length 0..=max_len,
/// every next/next_back pattern up to `len + extra` calls.
/// Positional calls (`nth`, `nth_back`) and finishing consumers (`count`,
/// `last`, `for_each`, `rev`, `skip`, `step_by`, `take`): every sequence of
/// at most two calls from {next, next_back, nth(a), nth_back(a)} with `a`
/// around what remains, followed by every finishing consumer.
fn positional_plans(len: usize, thin: bool, salt: u64) -> Vec<(Vec<Call>, Rest)> {
    let mut args: Vec<u8> = vec![0, 1, len.saturating_sub(2) as u8, len.saturating_sub(1) as u8, len as u8, len as u8 + 1];
    args.sort();
    args.dedup();
    let mut alphabet = vec![Call::Next, Call::NextBack];
    for &a in &args {
        alphabet.push(Call::Nth(a));
        alphabet.push(Call::NthBack(a));
    }
    let mut seqs: Vec<Vec<Call>> = vec![vec![]];
    for &c in &alphabet {
        seqs.push(vec![c]);
        for &d in &alphabet {
            seqs.push(vec![c, d]);
        }
    }
    let l = len as u8;
    let mut fins = vec![Rest::Stop, Rest::Front, Rest::Back, Rest::Count, Rest::Last, Rest::Fold, Rest::RFold,
        Rest::Skip(0), Rest::Skip(1), Rest::Skip(l.saturating_sub(1)), Rest::Skip(l), Rest::Skip(l + 1),
        Rest::StepBy(0), Rest::StepBy(1), Rest::StepBy(2), Rest::StepBy(l), Rest::RevStepBy(1), Rest::RevStepBy(2),
        Rest::TakeThenFront(0), Rest::TakeThenFront(1), Rest::TakeThenFront(l)];
    fins.dedup();
    let mut out = Vec::new();
    let mut n = 0u64;
    for s in &seqs {
        for &f in &fins {
            // plain next/next_back walks without a finishing consumer are the other engine's job
            if !f.finishing() && !s.iter().any(|c| c.positional()) {
                continue;
            }
            n += 1;
            if thin && derive_seed(salt, n, 77) % 4 != 0 {
                continue;
            }
            out.push((s.clone(), f));
        }
    }
    out
}

pub fn worker_walks(a: &WorkerArgs, fate: Fate, max_len: usize, extra: usize) -> Accum {
    let mut acc = Accum::default();
    let prop = a.prop;
    let mut n: u64 = 0;
    let positional = extra == usize::MAX;
    'all: for len in 0..=max_len {
        let plans: Vec<(Vec<Call>, Rest)> = if positional {
            // the quick tier thins the longer lengths to a seeded quarter
            positional_plans(len, !a.thorough && len >= 4, a.seed)
        }
        else {
            all_patterns(len + extra).iter().map(|p| (calls_of(p), Rest::Stop)).collect()
        };
        for kind in ITER_KINDS {
            for (calls, rest) in &plans {
                n += 1;
                if n % a.nworkers != a.index {
                    continue;
                }
                let salt = derive_seed(a.seed, n, 12);
                let hasher = ALL_HKINDS[(salt % 9) as usize];
                let capacity = CAPACITIES[((salt >> 8) % 9) as usize];
                let mut ops = build_ops(len, salt);
                // finishing consumers: also with the consumer's closure unwinding (at its
                // first, second or last item, chosen by the case number)
                let fate = if positional && rest.finishing() && fate == Fate::Drop && n % 3 == 0 {
                    Fate::Unwind(match (n / 3) % 3 { 0 => 0, 1 => 1, _ => len.saturating_sub(1).min(200) as u8 })
                } else { fate };
                ops.push(Op::IterWalk { kind, calls: calls.clone(), rest: *rest, fate });
                // further use
                ops.push(Op::Insert { key: KeySel::Absent(0), kheap: 0, size: SizeSel::Abs(1) });
                ops.push(Op::Get { key: KeySel::Lru, form: Form::Borrowed });
                if fate == Fate::Forget {
                    ops.push(Op::SetMaxSize(LimSel::KeepMru(2, 0)));
                    ops.push(Op::SetMaxSize(LimSel::Max));
                    ops.push(Op::Reserve(CapArg::LenPlus(3)));
                    ops.push(Op::Insert { key: KeySel::Absent(3), kheap: 0, size: SizeSel::Abs(1) });
                    ops.push(Op::IterWalk { kind: IterKind::Drain, calls: vec![Call::Next], rest: Rest::Stop, fate: Fate::Drop });
                    ops.push(Op::Clone(CloneMode::Check));
                    ops.push(Op::ShrinkToFit);
                }
                ops.push(Op::Remove { key: KeySel::Mru, form: Form::Owned });
                let case = Case {
                    config: Config { hasher, capacity, limit: LimSel::Max, universe: 16 },
                    ops,
                };
                write_current(a.out, &case.to_text());
                let out = run_case(&case, Some(prop), false);
                match judge(&out.fails, prop, a.known) {
                    Verdict::Pass => acc.add_case(prop, &out.stats, || sample_text(&case)),
                    Verdict::Known(sig) => { acc.cases += 1; *acc.known.entry(sig).or_insert(0) += 1; },
                    Verdict::Foreign(sig) => { acc.cases += 1; *acc.foreign.entry(sig).or_insert(0) += 1; },
                    Verdict::Violation(f) => {
                        // minimise the build part while the failure persists
                        let min = ddmin_ops(&case, |c| {
                            let o = run_case(c, Some(prop), false);
                            matches!(judge(&o.fails, prop, a.known), Verdict::Violation(_))
                        }, 200);
                        let out = run_case(&min, Some(prop), true);
                        let f2 = out.fails.iter().find(|f| f.has(prop)).cloned().unwrap_or(f);
                        acc.violations.push(Violation {
                            replay_text: replay_text(prop, &min, Some(&f2), &out.trace),
                            msg: f2.msg.clone(), sig: f2.sig.clone() });
                        break 'all;
                    },
                }
            }
        }
    }
    acc.exhaustive = acc.violations.is_empty() && !(positional && !a.thorough);
    acc
}

// ------------------------------------------------------------ C08 / C09

use crate::shapes::{self, MemFailure, MemStats};

pub fn hex(bytes: &[u8]) -> String {
    bytes.iter().map(|b| format!("{:02x}", b)).collect()
}

pub fn unhex(s: &str) -> Option<Vec<u8>> {
    if s.len() % 2 != 0 {
        return None;
    }
    (0..s.len() / 2).map(|i| u8::from_str_radix(&s[2 * i..2 * i + 2], 16).ok()).collect()
}

pub fn mem_case_text(name: &str, bytes: &[u8]) -> String {
    format!("memsize type={} bytes={}\n", name.replace(' ', ""), if bytes.is_empty() { "-".to_string() } else { hex(bytes) })
}

/// Runs one `memsize ...` / `memsize-big ...` line. Ok(description) or failures.
pub fn run_mem_line(line: &str) -> Result<(String, Vec<MemFailure>), String> {
    let t: Vec<&str> = line.split_whitespace().collect();
    let get = |k: &str| t.iter().find_map(|x| x.strip_prefix(k));
    match t.first().copied() {
        Some("memsize") => {
            let name = get("type=").ok_or("no type")?;
            let bytes = match get("bytes=").ok_or("no bytes")? { "-" => vec![], h => unhex(h).ok_or("bad hex")? };
            let menu = shapes::menu();
            let r = menu.iter().find(|r| r.name().replace(' ', "") == name).ok_or_else(|| format!("unknown type {}", name))?;
            let mut st = MemStats::default();
            let fails = r.run(&bytes, &mut st);
            Ok((format!("{} with {} bytes: {} checks", name, bytes.len(), st.checks), fails))
        },
        Some("memsize-big") => {
            let kind = get("kind=").ok_or("no kind")?;
            let count: usize = get("count=").ok_or("no count")?.parse().map_err(|_| "bad count")?;
            match shapes::run_big(kind, count) {
                Ok(d) => Ok((d, vec![])),
                Err(e) => Ok((String::new(), vec![MemFailure { tags: vec!["C08"], sig: format!("big:{}", kind), msg: e }])),
            }
        },
        _ => Err("not a memsize case".into()),
    }
}

pub fn worker_mem(a: &WorkerArgs) -> Accum {
    use proptest::prelude::*;
    let menu = shapes::menu();
    let n_types = menu.len();
    let strategy = (0..n_types, proptest::collection::vec(any::<u8>(), 0..160));
    let acc = RefCell::new(Accum::default());
    let st = RefCell::new(MemStats::default());
    let failed = RefCell::new(false);
    let prop = a.prop;
    let mut runner = TestRunner::new(pt_config(a.cases, derive_seed(a.seed, a.index, 8)));
    let result = runner.run(&strategy, |(ti, bytes)| {
        let r = &menu[ti];
        write_current(a.out, &mem_case_text(&r.name(), &bytes));
        let mut local = MemStats::default();
        let fails = r.run(&bytes, &mut local);
        let mine: Vec<&MemFailure> = fails.iter().filter(|f| f.tags.contains(&prop)).collect();
        let unknown = mine.iter().find(|f| is_known(a.known, prop, &f.sig).is_none());
        if let Some(f) = unknown {
            *failed.borrow_mut() = true;
            return Err(TestCaseError::fail(format!("[{}] {}", f.sig, f.msg)));
        }
        if !*failed.borrow() {
            let mut acc = acc.borrow_mut();
            acc.cases += 1;
            acc.steps += local.checks;
            if let Some(f) = mine.first() {
                *acc.known.entry(f.sig.clone()).or_insert(0) += 1;
            }
            else if let Some(f) = fails.first() {
                *acc.foreign.entry(format!("{}:{}", f.tags.join("+"), f.sig)).or_insert(0) += 1;
            }
            let nts = if prop == "C08" { &local.nontrivial8 } else { &local.nontrivial9 };
            if !nts.is_empty() {
                acc.nt_cases += 1;
            }
            let new = nts.iter().any(|s| !acc.nt.contains(s));
            for s in nts { acc.nt.insert(s.clone()); }
            if acc.samples.is_empty() || (new && acc.samples.len() < 6) {
                acc.samples.push(mem_case_text(&r.name(), &bytes).trim().to_string());
            }
            *acc.events.entry(format!("type.{}", r.name())).or_insert(0) += 1;
            st.borrow_mut().discarded += local.discarded;
        }
        Ok(())
    });
    let mut acc = acc.into_inner();
    acc.skipped = st.borrow().discarded;
    match result {
        Ok(()) => { },
        Err(TestError::Fail(_, (ti, bytes))) => {
            let r = &menu[ti];
            let mut local = MemStats::default();
            let fails = r.run(&bytes, &mut local);
            let f = fails.iter().find(|f| f.tags.contains(&prop));
            acc.violations.push(Violation {
                replay_text: format!("# replay for property {}\n# {}\n{}", prop,
                    f.map(|f| format!("[{}] {}", f.sig, f.msg)).unwrap_or_default(), mem_case_text(&r.name(), &bytes)),
                msg: f.map(|f| f.msg.clone()).unwrap_or_default(),
                sig: f.map(|f| f.sig.clone()).unwrap_or_default(),
            });
        },
        Err(TestError::Abort(r)) => acc.notes.push(format!("proptest aborted: {}", r)),
    }
    acc
}

/// Totality: large element counts on a 2 MiB stack. One kind per worker
/// round; a stack overflow kills this process and is observed by the parent.
pub fn worker_mem_big(a: &WorkerArgs) -> Accum {
    let mut acc = Accum::default();
    let kinds = shapes::big_kinds();
    let counts: &[usize] = &[40_000, 2_000_000];
    let mut n = 0u64;
    for kind in &kinds {
        for &count in counts {
            n += 1;
            if n % a.nworkers != a.index {
                continue;
            }
            let line = format!("memsize-big kind={} count={}\n", kind, count);
            write_current(a.out, &line);
            acc.cases += 1;
            match shapes::run_big(kind, count) {
                Ok(d) => {
                    acc.steps += 1;
                    acc.nt.insert(format!("big|{}|{}", kind, count));
                    acc.nt_cases += 1;
                    if acc.samples.len() < 2 { acc.samples.push(d); }
                },
                Err(e) => {
                    let sig = format!("big:{}", kind);
                    if is_known(a.known, a.prop, &sig).is_some() {
                        *acc.known.entry(sig).or_insert(0) += 1;
                    }
                    else {
                        acc.violations.push(Violation { replay_text: format!("# replay for property {}\n# {}\n{}", a.prop, e, line), msg: e, sig });
                    }
                },
            }
        }
    }
    acc
}

// ------------------------------------------------- std value types

pub fn stdvals_case_text(ty: &str, bytes: &[u8]) -> String {
    format!("stdvals type={} bytes={}\n", ty.replace(' ', ""), if bytes.is_empty() { "-".to_string() } else { hex(bytes) })
}

pub fn run_stdvals_line(line: &str) -> Result<(String, Vec<MemFailure>), String> {
    let t: Vec<&str> = line.split_whitespace().collect();
    let get = |k: &str| t.iter().find_map(|x| x.strip_prefix(k));
    let name = get("type=").ok_or("no type")?;
    let bytes = match get("bytes=").ok_or("no bytes")? { "-" => vec![], h => unhex(h).ok_or("bad hex")? };
    let ty = crate::stdvals::STDVAL_TYPES.iter().find(|t| t.replace(' ', "") == name).ok_or_else(|| format!("unknown type {}", name))?;
    let o = crate::stdvals::run_stdvals(ty, &bytes).ok_or("unknown type")?;
    Ok((format!("{} with {} bytes: {} steps", ty, bytes.len(), o.steps), o.fails))
}

/// The cache over std value types measured by the crate's own estimates.
pub fn worker_stdvals(a: &WorkerArgs) -> Accum {
    use proptest::prelude::*;
    let types = crate::stdvals::STDVAL_TYPES;
    let strategy = (0..types.len(), proptest::collection::vec(any::<u8>(), 0..260));
    let acc = RefCell::new(Accum::default());
    let failed = RefCell::new(false);
    let prop = a.prop;
    let mut runner = TestRunner::new(pt_config(a.cases, derive_seed(a.seed, a.index, 23)));
    let result = runner.run(&strategy, |(ti, bytes)| {
        let ty = types[ti];
        write_current(a.out, &stdvals_case_text(ty, &bytes));
        let o = crate::stdvals::run_stdvals(ty, &bytes).unwrap();
        let mine: Vec<&MemFailure> = o.fails.iter().filter(|f| f.tags.contains(&prop)).collect();
        if let Some(f) = mine.iter().find(|f| is_known(a.known, prop, &f.sig).is_none()) {
            *failed.borrow_mut() = true;
            return Err(TestCaseError::fail(format!("[{}] {}", f.sig, f.msg)));
        }
        if !*failed.borrow() {
            let mut acc = acc.borrow_mut();
            acc.cases += 1;
            acc.steps += o.steps;
            if let Some(f) = mine.first() {
                *acc.known.entry(f.sig.clone()).or_insert(0) += 1;
            }
            else if let Some(f) = o.fails.first() {
                *acc.foreign.entry(format!("{}:{}", f.tags.join("+"), f.sig)).or_insert(0) += 1;
            }
            for (k, v) in &o.events { *acc.events.entry(k.clone()).or_insert(0) += v; }
            if o.events.contains_key("std.mutate.resized") || o.events.contains_key("std.mutate.overflow") {
                acc.nt_cases += 1;
                let sig = format!("std|{}|{}", ty, if o.events.contains_key("std.mutate.overflow") { "overflow" } else { "resized" });
                let new = acc.nt.insert(sig);
                if acc.samples.is_empty() || (new && acc.samples.len() < 4) {
                    acc.samples.push(stdvals_case_text(ty, &bytes).trim().to_string());
                }
            }
        }
        Ok(())
    });
    let mut acc = acc.into_inner();
    match result {
        Ok(()) => { },
        Err(TestError::Fail(_, (ti, bytes))) => {
            let ty = types[ti];
            let o = crate::stdvals::run_stdvals(ty, &bytes).unwrap();
            let f = o.fails.iter().find(|f| f.tags.contains(&prop));
            acc.violations.push(Violation {
                replay_text: format!("# replay for property {}\n# {}\n{}", prop,
                    f.map(|f| format!("[{}] {}", f.sig, f.msg)).unwrap_or_default(), stdvals_case_text(ty, &bytes)),
                msg: f.map(|f| f.msg.clone()).unwrap_or_default(),
                sig: f.map(|f| f.sig.clone()).unwrap_or_default(),
            });
        },
        Err(TestError::Abort(r)) => acc.notes.push(format!("proptest aborted: {}", r)),
    }
    acc
}

// ------------------------------------------------- more than 2^16 entries

/// Generated scripts of bulk steps over caches of 65 536 .. 300 000 entries
/// (`huge.rs`). Seeds come from the proptest runner; a failing script is
/// minimised by dropping steps.
pub fn worker_huge(a: &WorkerArgs) -> Accum {
    use crate::huge::{case_from_seed, run_huge, HugeCase};
    use proptest::prelude::*;
    let mut acc = Accum::default();
    let prop = a.prop;
    let mut runner = TestRunner::new(pt_config(a.cases, derive_seed(a.seed, a.index, 21)));
    let seeds: Vec<u64> = {
        let out = RefCell::new(Vec::new());
        let _ = runner.run(&any::<u64>(), |s| { out.borrow_mut().push(s); Ok(()) });
        out.into_inner()
    };
    let fails_for = |c: &HugeCase| -> Vec<MemFailure> { run_huge(c).fails };
    let mine = |fails: &[MemFailure]| -> Option<MemFailure> {
        fails.iter().find(|f| f.tags.contains(&prop) && is_known(a.known, prop, &f.sig).is_none()).cloned()
    };
    for seed in seeds {
        let case = case_from_seed(seed, a.thorough);
        write_current(a.out, &case.to_text());
        let out = run_huge(&case);
        acc.cases += 1;
        acc.steps += out.checks;
        if let Some(f) = mine(&out.fails) {
            // minimise: drop steps (never the initial fill) while the failure persists
            let mut cur = case.clone();
            let mut i = 1;
            while i < cur.steps.len() {
                let mut cand = cur.clone();
                cand.steps.remove(i);
                if mine(&fails_for(&cand)).is_some() { cur = cand; } else { i += 1; }
            }
            let f2 = mine(&fails_for(&cur)).unwrap_or(f);
            acc.violations.push(Violation {
                replay_text: format!("# replay for property {}
# [{}] {}
{}", prop, f2.sig, f2.msg, cur.to_text()),
                msg: f2.msg.clone(), sig: f2.sig.clone() });
            break;
        }
        if let Some(f) = out.fails.first() {
            if f.tags.contains(&prop) {
                *acc.known.entry(f.sig.clone()).or_insert(0) += 1;
            }
            else {
                *acc.foreign.entry(format!("{}:{}", f.tags.join("+"), f.sig)).or_insert(0) += 1;
            }
            continue;
        }
        acc.nt_cases += 1;
        for s in case.steps.iter().skip(1) {
            let t = s.to_text();
            acc.nt.insert(format!("huge|{}|{}", t.split(':').next().unwrap_or(""), if out.entries_peak > 131_072 { ">2^17" } else { ">2^16" }));
            *acc.events.entry(format!("huge.{}", t.split(':').next().unwrap_or(""))).or_insert(0) += 1;
        }
        if acc.samples.len() < 2 { acc.samples.push(case.to_text().trim().to_string()); }
    }
    acc
}

// ------------------------------------------------------------------ C18

pub fn probe_replay_text(prop: &str, r: &crate::probes::ProbeResult, seed: u64, nestings: usize) -> String {
    let mut s = format!("# replay for property {}\n# {}\nprobe id={} seed={} nestings={}\n# program:\n", prop, r.why, r.probe.id, seed, nestings);
    for l in r.probe.source.lines() {
        s.push_str(&format!("#   {}\n", l));
    }
    for (c, t) in r.errors.iter().take(3) {
        s.push_str(&format!("# rustc: {} {}\n", c, t.lines().next().unwrap_or("")));
    }
    s
}

pub fn worker_probes(a: &WorkerArgs, root: &Path) -> Accum {
    let mut acc = Accum::default();
    let nestings = if a.thorough { 16 } else { 4 };
    let run = match crate::probes::run_all(root, &crate::probes::repo_path(), a.seed, nestings) {
        Ok(r) => r,
        Err(e) => {
            acc.notes.push(format!("INCONCLUSIVE: {}", e));
            return acc;
        }
    };
    for (k, v) in crate::probes::histogram(&run.results) {
        acc.events.insert(k, v);
    }
    for r in &run.results {
        acc.cases += 1;
        acc.steps += 1;
        acc.nt.insert(r.probe.id.clone());
        acc.nt_cases += 1;
        if acc.samples.len() < 4 && (acc.samples.len() % 2 == 0) == r.probe.expect_reject {
            acc.samples.push(format!("{} [{}]: {}", r.probe.id, if r.probe.expect_reject { "must be rejected" } else { "must be accepted" }, r.probe.source.replace('\n', " ")));
        }
        if !r.ok {
            let sig = format!("probe:{}", r.probe.id);
            if is_known(a.known, a.prop, &sig).is_some() {
                *acc.known.entry(sig).or_insert(0) += 1;
            }
            else if acc.violations.len() < 8 {
                acc.violations.push(Violation {
                    replay_text: probe_replay_text(a.prop, r, a.seed, nestings),
                    msg: format!("{}: {}", r.probe.id, r.why), sig });
            }
        }
    }
    acc.exhaustive = true;
    acc
}

// ------------------------------------------------------- C19 (schedules)

use crate::shared::{self, SOp, SharedCase};

fn sop_strategy(universe: u16) -> proptest::strategy::BoxedStrategy<SOp> {
    use proptest::prelude::*;
    let form = prop_oneof![Just(Form::Owned), Just(Form::Borrowed)];
    prop_oneof![
        4 => (gen::key_sel(universe), form.clone()).prop_map(|(k, f)| SOp::Peek(k, f)),
        3 => (gen::key_sel(universe), form.clone()).prop_map(|(k, f)| SOp::PeekEntry(k, f)),
        3 => (gen::key_sel(universe), form).prop_map(|(k, f)| SOp::Contains(k, f)),
        3 => Just(SOp::PeekLru),
        3 => Just(SOp::PeekMru),
        1 => Just(SOp::Scalars),
        4 => (0u8..3, proptest::collection::vec(any::<bool>(), 0..6), any::<bool>()).prop_map(|(k, c, f)| SOp::Walk(k, c, f)),
        1 => Just(SOp::Debug),
        2 => Just(SOp::Clone),
    ].boxed()
}

pub fn shared_case_strategy() -> proptest::strategy::BoxedStrategy<SharedCase> {
    use proptest::prelude::*;
    let mut p = Profile::base("shared-prefix");
    p.side = 0;
    p.inject = 0;
    p.clone = 1;
    p.walk = 1;
    p.insert = 40;
    p.clear = 0;
    p.max_ops = 30;
    let bulk = prop_oneof![6 => Just(None), 1 => (1100u16..2600).prop_map(Some)];
    (gen::case(&p), bulk).prop_flat_map(|(mut prefix, bulk)| {
        if let Some(n) = bulk {
            // a big, dense cache: whole-table fast paths only exist there
            prefix.config.universe = 4096;
            prefix.config.limit = LimSel::Max;
            prefix.config.capacity = None;
            prefix.ops.truncate(6);
            prefix.ops.insert(0, Op::InsertMany { count: n, vheap: 0 });
        }
        let u = prefix.config.universe;
        (Just(prefix), proptest::collection::vec(proptest::collection::vec(sop_strategy(u), 1..10), 2..=4))
    }).prop_map(|(prefix, threads)| SharedCase { prefix, threads }).boxed()
}

pub fn worker_shared(a: &WorkerArgs) -> Accum {
    let strategy = shared_case_strategy();
    let acc = RefCell::new(Accum::default());
    let failed = RefCell::new(false);
    let mut runner = TestRunner::new(pt_config(a.cases, derive_seed(a.seed, a.index, 19)));
    let result = runner.run(&strategy, |case| {
        write_current(a.out, &case.to_text());
        let out = shared::run_shared(&case);
        if !out.failures.is_empty() {
            *failed.borrow_mut() = true;
            return Err(TestCaseError::fail(out.failures.join("; ")));
        }
        if !*failed.borrow() {
            let mut acc = acc.borrow_mut();
            acc.cases += 1;
            acc.steps += out.ops as u64;
            if out.prefix_failed {
                *acc.foreign.entry("prefix-failed".into()).or_insert(0) += 1;
            }
            if !out.nontrivial.is_empty() { acc.nt_cases += 1; }
            let new = out.nontrivial.iter().any(|s| !acc.nt.contains(s));
            for s in out.nontrivial { acc.nt.insert(format!("threads|{}", s)); }
            if acc.samples.is_empty() || (new && acc.samples.len() < 4) {
                acc.samples.push(case.to_text().replace('\n', " ; "));
            }
        }
        Ok(())
    });
    let mut acc = acc.into_inner();
    match result {
        Ok(()) => { },
        Err(TestError::Fail(reason, case)) => {
            acc.violations.push(Violation {
                replay_text: format!("# replay for property {}\n# {}\n{}", a.prop, reason, case.to_text()),
                msg: format!("{}", reason), sig: "shared-readers".into() });
        },
        Err(TestError::Abort(r)) => acc.notes.push(format!("proptest aborted: {}", r)),
    }
    acc
}

// ------------------------------------------------- corpus and fuzz seeds

/// Replays every committed case of corpus/cache (shrunk regressions, seeds).
pub fn worker_corpus(a: &WorkerArgs, dir: &Path) -> Accum {
    let mut acc = Accum::default();
    let mut files: Vec<std::path::PathBuf> = std::fs::read_dir(dir).map(|rd| rd.flatten().map(|e| e.path())
        .filter(|p| p.extension().map(|e| e == "case").unwrap_or(false)).collect()).unwrap_or_default();
    files.sort();
    for f in files {
        let text = match std::fs::read_to_string(&f) { Ok(t) => t, Err(_) => continue };
        let case = match Case::from_text(&text) { Ok(c) => c, Err(e) => { acc.notes.push(format!("{}: {}", f.display(), e)); continue; } };
        write_current(a.out, &case.to_text());
        let out = run_case(&case, Some(a.prop), false);
        match judge(&out.fails, a.prop, a.known) {
            Verdict::Pass => acc.add_case(a.prop, &out.stats, || sample_text(&case)),
            Verdict::Known(sig) => { acc.cases += 1; *acc.known.entry(sig).or_insert(0) += 1; },
            Verdict::Foreign(sig) => { acc.cases += 1; *acc.foreign.entry(sig).or_insert(0) += 1; },
            Verdict::Violation(fl) => {
                let out = run_case(&case, Some(a.prop), true);
                acc.violations.push(Violation { replay_text: replay_text(a.prop, &case, Some(&fl), &out.trace), msg: fl.msg.clone(), sig: fl.sig.clone() });
            },
        }
    }
    acc
}

/// Deterministic sample of generated cases from all profiles (fuzz seeds).
pub fn sample_cases(n: u32, seed: u64) -> Vec<Case> {
    use proptest::strategy::{Strategy, ValueTree};
    let mut out = Vec::new();
    let props = ["C01", "C03", "C04", "C06", "C07", "C10", "C11", "C12", "C13", "C14", "C15", "C17", "C19", "C20"];
    let per = (n as usize / props.len()).max(1);
    for (i, p) in props.iter().enumerate() {
        let mut profile = Profile::for_property(p, false);
        profile.max_ops = 40;
        profile.inject = 3;
        let strategy = gen::case(&profile);
        let mut runner = TestRunner::new(pt_config(1, derive_seed(seed, i as u64, 77)));
        for _ in 0..per {
            if let Ok(tree) = strategy.new_tree(&mut runner) {
                let c = tree.current();
                // only what the byte codec represents faithfully
                if UNIVERSES.contains(&c.config.universe) {
                    out.push(c);
                }
            }
        }
    }
    out
}

// --------------------------------------------- other K / V / S instantiations

use crate::variants;

pub fn variant_replay_text(prop: &str, variant: &str, case: &Case, f: Option<&Failure>) -> String {
    let mut s = format!("# replay for property {}\n", prop);
    if let Some(f) = f {
        s.push_str(&format!("# failure at step {}: [{}] {}\n", f.step, f.sig, f.msg.replace('\n', " ")));
    }
    s.push_str(&format!("variant {}\n", variant));
    s.push_str(&case.to_text());
    s
}

pub fn worker_variants(a: &WorkerArgs) -> Accum {
    let mut profile = Profile::for_property(a.prop, a.thorough);
    profile.walk = profile.walk.max(10);
    profile.forget = profile.forget.max(4);
    profile.clone = profile.clone.max(5);
    profile.clear = profile.clear.max(3);
    profile.side = 0;
    profile.inject = 0;
    profile.churn = 0;
    profile.max_ops = profile.max_ops.min(80);
    profile.big = false;
    let strategy = gen::case(&profile);
    let acc = RefCell::new(Accum::default());
    let failed = RefCell::new(false);
    let mut runner = TestRunner::new(pt_config(a.cases, derive_seed(a.seed, a.index, 23)));
    let prop = a.prop;
    let result = runner.run(&strategy, |case| {
        for v in variants::VARIANTS {
            write_current(a.out, &variant_replay_text(prop, v, &case, None));
            let out = variants::run_variant(v, &case).expect("known variant");
            match judge(&out.fails, prop, a.known) {
                Verdict::Pass => {
                    if !*failed.borrow() {
                        let mut acc = acc.borrow_mut();
                        acc.cases += 1;
                        acc.steps += out.steps;
                        let mut any = false;
                        for e in &out.events {
                            any = true;
                            acc.nt.insert(format!("variant|{}|{}", v, e));
                        }
                        if any { acc.nt_cases += 1; }
                        if acc.samples.len() < 2 && any {
                            acc.samples.push(format!("variant {} ; {}", v, sample_text(&case)));
                        }
                    }
                },
                Verdict::Known(sig) => { if !*failed.borrow() { let mut acc = acc.borrow_mut(); acc.cases += 1; *acc.known.entry(sig).or_insert(0) += 1; } },
                Verdict::Foreign(sig) => { if !*failed.borrow() { let mut acc = acc.borrow_mut(); acc.cases += 1; *acc.foreign.entry(sig).or_insert(0) += 1; } },
                Verdict::Violation(f) => {
                    *failed.borrow_mut() = true;
                    return Err(TestCaseError::fail(format!("[{}] {}", f.sig, f.msg)));
                },
            }
        }
        Ok(())
    });
    let mut acc = acc.into_inner();
    match result {
        Ok(()) => { },
        Err(TestError::Fail(_, case)) => {
            for v in variants::VARIANTS {
                let out = variants::run_variant(v, &case).expect("known variant");
                if let Verdict::Violation(f) = judge(&out.fails, prop, a.known) {
                    let mut c = case.clone();
                    c.ops.truncate(f.step);
                    acc.violations.push(Violation { replay_text: variant_replay_text(prop, v, &c, Some(&f)), msg: f.msg.clone(), sig: f.sig.clone() });
                    break;
                }
            }
        },
        Err(TestError::Abort(r)) => acc.notes.push(format!("proptest aborted: {}", r)),
    }
    acc
}

// ------------------------------------------------ table geometry (small scope)

/// Systematic enumeration of hash-table corner states under the identity
/// hasher (home bucket = key mod buckets): table size x fill level x
/// displaced (colliding) keys x survivors after removals (tombstones) x
/// removal order x the home bucket of one newly inserted key, followed by
/// further use. Targets growth / rehash / tombstone reuse decisions.
pub fn geometry_cases() -> Vec<Case> {
    let mut out = Vec::new();
    for &b in &[4usize, 8, 16, 32, 64, 128, 256] {
        let cap = if b < 8 { b - 1 } else { b / 8 * 7 };
        let big = b >= 128;
        let mut fills = vec![cap, cap.saturating_sub(1).max(1)];
        if !big { fills.push((cap / 2).max(1)); }
        fills.dedup();
        for &fill in &fills {
            for &displaced in &[0usize, 2] {
                if displaced >= fill { continue; }
                let mut keeps = vec![0usize, 1, 2, 3, cap / 4, (cap / 2).saturating_sub(1), cap / 2, cap / 2 + 1, cap * 9 / 16, fill.saturating_sub(2)];
                keeps.retain(|k| *k <= fill);
                keeps.sort();
                keeps.dedup();
                if big {
                    // every entry count matters for growth targets, but keep it affordable
                    keeps = vec![0, 3, cap / 4, cap * 3 / 8, cap / 2 + 1, cap * 9 / 16];
                }
                for &keep in &keeps {
                    let orders: &[(bool, bool)] = if big { &[(false, false), (false, true)] } else { &[(false, false), (true, false), (false, true)] };
                    for &(descending, keep_high) in orders {
                        // the state
                        let mut build = Vec::new();
                        let seq = fill - displaced;
                        let mut keys: Vec<u16> = (0..seq as u16).collect();
                        for d in 0..displaced {
                            keys.push((b + (d * 5) % b) as u16);
                        }
                        for (i, k) in keys.iter().enumerate() {
                            build.push(Op::Insert { key: KeySel::Raw(*k), kheap: 0, size: SizeSel::Abs((i % 3) as u32) });
                        }
                        let mut survivors: Vec<u16> = keys.iter().rev().take(displaced.min(keep)).copied().collect();
                        let pool: Vec<u16> = if keep_high { keys.iter().rev().copied().collect() } else { keys.clone() };
                        for k in pool.iter() {
                            if survivors.len() >= keep { break; }
                            if !survivors.contains(k) { survivors.push(*k); }
                        }
                        let mut victims: Vec<u16> = keys.iter().copied().filter(|k| !survivors.contains(k)).collect();
                        if descending { victims.reverse(); }
                        for (i, k) in victims.iter().enumerate() {
                            build.push(if i % 2 == 0 { Op::Remove { key: KeySel::Raw(*k), form: Form::Owned } }
                                else { Op::RemoveEntry { key: KeySel::Raw(*k), form: Form::Borrowed } });
                        }
                        // first operations on that state
                        let homes: Vec<usize> = if b <= 32 { (0..b).collect() }
                            else if b == 64 { vec![0, 1, 9, 17, 31, 40, 55, 56, 60, 63] }
                            else { vec![0, 7, b / 2, cap - 1, cap, cap + 3, b - 1] };
                        let mut firsts: Vec<Vec<Op>> = Vec::new();
                        for &home in &homes {
                            firsts.push(vec![Op::Insert { key: KeySel::Raw((home + 2 * b) as u16), kheap: 0, size: SizeSel::Abs(1) }]);
                        }
                        if b >= 16 {
                            firsts.push(vec![Op::TryInsert { key: KeySel::Raw((cap + 1 + 2 * b) as u16), kheap: 0, size: SizeSel::Zero }]);
                            if keep > 0 {
                                firsts.push(vec![Op::Insert { key: KeySel::Lru, kheap: 0, size: SizeSel::Abs(2) }]);
                                firsts.push(vec![Op::Insert { key: KeySel::Mru, kheap: 1, size: SizeSel::Abs(5) }]);
                                firsts.push(vec![Op::Retain { mask: 0x5555_5555_5555_5555, by_key: false }]);
                                firsts.push(vec![Op::Retain { mask: 0x0000_ffff_0000_ffff, by_key: true }]);
                                firsts.push(vec![Op::Retain { mask: !0, by_key: false }]);
                                firsts.push(vec![Op::SetMaxSize(LimSel::CurPlus(0)), Op::SetMaxSize(LimSel::KeepMru(2, 0))]);
                                firsts.push(vec![Op::SetMaxSize(LimSel::CurPlus(0)), Op::Insert { key: KeySel::Raw((cap + 2 * b) as u16), kheap: 0, size: SizeSel::NeedEvict(2, 0) }]);
                                firsts.push(vec![Op::SetMaxSize(LimSel::CurPlus(0)), Op::Mutate { key: KeySel::Mru, form: Form::Owned, size: SizeSel::NeedEvict(1, 0) }]);
                                firsts.push(vec![Op::SetMaxSize(LimSel::CurPlus(0)), Op::Mutate { key: KeySel::Lru, form: Form::Borrowed, size: SizeSel::MaxPlus(0) }]);
                                firsts.push(vec![Op::Clone(CloneMode::Swap)]);
                                firsts.push(vec![Op::Clone(CloneMode::From)]);
                                firsts.push(vec![Op::IterWalk { kind: IterKind::Drain, calls: vec![Call::Next, Call::NextBack], rest: Rest::Stop, fate: Fate::Drop }]);
                            }
                            firsts.push(vec![Op::Clear]);
                            firsts.push(vec![Op::ShrinkToFit]);
                            firsts.push(vec![Op::Reserve(CapArg::Abs(1))]);
                        }
                        for first in firsts {
                            let mut ops = build.clone();
                            ops.extend(first);
                            ops.push(Op::Get { key: KeySel::Lru, form: Form::Owned });
                            ops.push(Op::IterWalk { kind: IterKind::Iter, calls: vec![Call::NextBack], rest: Rest::Front, fate: Fate::Drop });
                            ops.push(Op::Insert { key: KeySel::Raw((3 * b + 1) as u16), kheap: 0, size: SizeSel::Zero });
                            ops.push(Op::TryInsert { key: KeySel::Raw((3 * b + 2) as u16), kheap: 0, size: SizeSel::Zero });
                            ops.push(Op::Remove { key: KeySel::Mru, form: Form::Borrowed });
                            ops.push(Op::ShrinkToFit);
                            ops.push(Op::Clone(CloneMode::Check));
                            ops.push(Op::Reserve(CapArg::LenPlus(2)));
                            out.push(Case {
                                config: Config { hasher: crate::hashers::HKind::Identity, capacity: Some(cap as u32), limit: LimSel::Max, universe: 1024 },
                                ops,
                            });
                        }
                    }
                }
            }
        }
    }
    // A key displaced within its probe group, an earlier bucket of that group
    // vacated while the run around it was short (it becomes EMPTY, not a
    // tombstone), the table then filled to exactly its capacity: replacing the
    // displaced key frees a tombstone but its re-insertion meets the EMPTY
    // bucket first, with no growth budget left.
    for &b in &[32usize, 64, 128] {
        let cap = b / 8 * 7;
        for &h in &[0usize, 2, 9] {
            for &r in &[3usize, 8, 12] {
                for &off in &[1usize, r / 2, r - 1] {
                    if off >= r { continue; }
                    let mut build = Vec::new();
                    let ins = |k: usize| Op::Insert { key: KeySel::Raw(k as u16), kheap: 0, size: SizeSel::Abs((k % 3) as u32) };
                    for k in h..h + r { build.push(ins(k)); }
                    let displaced = b + h;
                    build.push(ins(displaced));
                    build.push(Op::Remove { key: KeySel::Raw((h + off) as u16), form: Form::Owned });
                    let mut len = r; // r + 1 - 1
                    let mut k = h + r + 1;
                    while len < cap && k < b + h {
                        if k % b >= h + r + 1 || k % b < h {
                            // homes after the displaced key only: nobody takes the vacated bucket
                            if k < b { build.push(ins(k)); len += 1; }
                        }
                        k += 1;
                    }
                    let firsts: Vec<Vec<Op>> = vec![
                        vec![ins(displaced)],
                        vec![Op::Insert { key: KeySel::Raw(displaced as u16), kheap: 1, size: SizeSel::Abs(7) }],
                        vec![Op::TryInsert { key: KeySel::Raw((2 * b + h) as u16), kheap: 0, size: SizeSel::Zero }],
                        vec![Op::Mutate { key: KeySel::Raw(displaced as u16), form: Form::Owned, size: SizeSel::Abs(9) }],
                        vec![Op::Remove { key: KeySel::Raw(displaced as u16), form: Form::Borrowed }, ins(displaced)],
                        vec![ins(h), ins(displaced)],
                    ];
                    for first in firsts {
                        let mut ops = build.clone();
                        ops.extend(first);
                        ops.push(Op::Get { key: KeySel::Lru, form: Form::Owned });
                        ops.push(Op::IterWalk { kind: IterKind::Iter, calls: vec![Call::NextBack], rest: Rest::Front, fate: Fate::Drop });
                        ops.push(ins(displaced));
                        ops.push(Op::Remove { key: KeySel::Mru, form: Form::Borrowed });
                        ops.push(Op::Clone(CloneMode::Check));
                        out.push(Case {
                            config: Config { hasher: crate::hashers::HKind::Identity, capacity: Some(cap as u32), limit: LimSel::Max, universe: 1024 },
                            ops,
                        });
                    }
                }
            }
        }
    }
    out
}

pub fn worker_geometry(a: &WorkerArgs) -> Accum {
    let mut acc = Accum::default();
    let prop = a.prop;
    for (n, case) in geometry_cases().into_iter().enumerate() {
        if n as u64 % a.nworkers != a.index {
            continue;
        }
        write_current(a.out, &case.to_text());
        let out = run_case(&case, Some(prop), false);
        match judge(&out.fails, prop, a.known) {
            Verdict::Pass => {
                acc.add_case(prop, &out.stats, || sample_text(&case));
                let rebuilt = out.stats.events.get("rebuild.growth").copied().unwrap_or(0);
                acc.nt.insert(format!("geometry|cap{}|ops{}|growth{}", case.config.capacity.unwrap_or(0), case.ops.len() / 8, rebuilt.min(2)));
            },
            Verdict::Known(sig) => { acc.cases += 1; *acc.known.entry(sig).or_insert(0) += 1; },
            Verdict::Foreign(sig) => { acc.cases += 1; *acc.foreign.entry(sig).or_insert(0) += 1; },
            Verdict::Violation(f) => {
                let mut min = ddmin_ops(&case, |c| {
                    let o = run_case(c, Some(prop), false);
                    matches!(judge(&o.fails, prop, a.known), Verdict::Violation(_))
                }, 300);
                let out = run_case(&min, Some(prop), true);
                let f2 = out.fails.iter().find(|f| f.has(prop)).cloned().unwrap_or(f);
                min.ops.truncate(f2.step);
                acc.violations.push(Violation { replay_text: replay_text(prop, &min, Some(&f2), &out.trace), msg: f2.msg.clone(), sig: f2.sig.clone() });
                break;
            },
        }
    }
    acc.exhaustive = acc.violations.is_empty();
    acc
}
