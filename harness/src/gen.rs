//! proptest strategies for cases of the operation language. One strategy,
//! re-weighted per property by a `Profile`.

use proptest::collection::vec;
use proptest::prelude::*;

use crate::hashers::{HKind, ALL_HKINDS};
use crate::ops::*;
use crate::tracked::Cb;

#[derive(Clone, Debug)]
pub struct Profile {
    pub name: &'static str,
    pub insert: u32,
    pub try_insert: u32,
    pub promote: u32,
    pub peek: u32,
    pub remove: u32,
    pub mutate: u32,
    pub set_max: u32,
    pub retain: u32,
    pub clear: u32,
    pub capacity: u32,
    pub walk: u32,
    pub debug: u32,
    pub clone: u32,
    pub scalars: u32,
    pub insert_many: u32,
    pub churn: u32,
    pub side: u32,
    /// arm a panic in a callback of the next operation
    pub inject: u32,
    /// iterator walks: weight of forgetting instead of dropping
    pub forget: u32,
    /// weight of boundary size selectors relative to plain sizes
    pub boundary: u32,
    /// weight of colliding hashers relative to spread ones (out of 10)
    pub colliding: u32,
    pub max_ops: usize,
    /// allow large bulk operations (thousands of entries)
    pub big: bool,
    /// small universes / limits only (fault enumeration wants small states)
    pub small: bool,
    /// the limit is of the order of usize::MAX: draw sizes that scale with it
    pub giant: bool,
}

impl Profile {
    pub fn base(name: &'static str) -> Profile {
        Profile {
            name,
            insert: 24, try_insert: 6, promote: 10, peek: 6, remove: 8, mutate: 8,
            set_max: 4, retain: 3, clear: 1, capacity: 6, walk: 4, debug: 1,
            clone: 2, scalars: 1, insert_many: 2, churn: 1, side: 2, inject: 1,
            forget: 0, boundary: 5, colliding: 4, max_ops: 60, big: false, small: false, giant: false,
        }
    }

    pub fn for_property(prop: &str, thorough: bool) -> Profile {
        let mut p = Profile::base("cache");
        match prop {
            "C01" => { p.name = "bound"; p.mutate = 14; p.set_max = 10; p.boundary = 9; p.try_insert = 8; },
            "C02" => { p.name = "accounting"; p.mutate = 14; p.remove = 10; p.retain = 5; p.walk = 6; p.clone = 4; p.capacity = 8; p.inject = 3; },
            "C03" => { p.name = "eviction"; p.insert = 26; p.promote = 14; p.mutate = 12; p.set_max = 10; p.boundary = 10; p.remove = 3; p.clear = 0; },
            "C04" => { p.name = "map"; p.colliding = 6; p.remove = 14; p.capacity = 10; p.insert = 28; p.peek = 10; p.insert_many = 3; },
            "C05" => { p.name = "order"; p.promote = 18; p.peek = 12; p.mutate = 10; p.try_insert = 8; p.capacity = 8; p.debug = 3; p.clone = 3; p.insert_many = 3; p.clear = 0; },
            "C06" => { p.name = "ownership"; p.walk = 12; p.clone = 6; p.mutate = 10; p.remove = 10; p.capacity = 8; p.clear = 2; },
            "C07" => { p.name = "structure"; p.capacity = 24; p.insert_many = 5; p.churn = 2; p.remove = 10; p.clone = 3; p.walk = 5; },
            "C10" => { p.name = "reject"; p.insert = 20; p.try_insert = 30; p.boundary = 12; p.set_max = 6; p.mutate = 4; },
            "C11" => { p.name = "mutate"; p.mutate = 36; p.boundary = 10; p.insert = 20; p.promote = 6; },
            "C12" => { p.name = "walks"; p.walk = 30; p.insert = 24; p.capacity = 6; p.remove = 8; p.insert_many = 3; },
            "C13" => { p.name = "capacity"; p.capacity = 40; p.churn = 5; p.insert_many = 5; p.remove = 10; },
            "C14" => { p.name = "clone"; p.clone = 14; p.side = 12; p.mutate = 10; p.capacity = 8; p.set_max = 6; p.inject = 3; },
            "C15" => { p.name = "retain"; p.retain = 24; p.insert = 26; p.promote = 8; p.mutate = 6; p.inject = 3; },
            "C17" => { p.name = "forget"; p.walk = 24; p.forget = 8; p.insert = 26; p.capacity = 6; p.clone = 3; },
            "C19" => { p.name = "shared"; p.peek = 24; p.walk = 10; p.debug = 6; p.clone = 8; p.scalars = 4; p.forget = 0; p.inject = 4; },
            "C20" => { p.name = "hashing"; p.insert_many = 6; p.promote = 12; p.capacity = 8; p.retain = 4; p.churn = 2; p.walk = 6; },
            _ => { },
        }
        if thorough {
            p.max_ops = 400;
            p.big = true;
        }
        p
    }
}

fn small_d() -> impl Strategy<Value = i8> {
    prop_oneof![4 => Just(0i8), 3 => Just(1i8), 3 => Just(-1i8), 1 => -3i8..=3]
}

pub fn key_sel(universe: u16) -> impl Strategy<Value = KeySel> {
    prop_oneof![
        3 => Just(KeySel::Lru),
        3 => Just(KeySel::Mru),
        6 => any::<u16>().prop_map(KeySel::Nth),
        5 => (0..universe).prop_map(KeySel::Absent),
        4 => (0..universe).prop_map(KeySel::Raw),
    ]
}

fn form() -> impl Strategy<Value = Form> {
    prop_oneof![Just(Form::Owned), Just(Form::Borrowed)]
}

pub fn size_sel(boundary: u32) -> impl Strategy<Value = SizeSel> {
    prop_oneof![
        3 => Just(SizeSel::Zero),
        4 => (0u32..64).prop_map(SizeSel::Abs),
        2 => (0u32..3000).prop_map(SizeSel::Abs),
        boundary => small_d().prop_map(SizeSel::FreePlus),
        boundary / 2 + 1 => small_d().prop_map(SizeSel::MaxPlus),
        boundary => (0u8..6, small_d()).prop_map(|(n, d)| SizeSel::NeedEvict(n, d)),
        1 => (20u8..70, small_d()).prop_map(|(n, d)| SizeSel::NeedEvict(n, d)),
        1 => (1u8..4, small_d()).prop_map(|(k, d)| SizeSel::Frac(k, d)),
    ]
}

fn giant_lim() -> impl Strategy<Value = LimSel> {
    prop_oneof![
        2 => small_d().prop_map(|d| LimSel::Pow(63, d)),
        1 => small_d().prop_map(|d| LimSel::Pow(62, d)),
        2 => small_d().prop_map(LimSel::ThreeQuarters),
        2 => Just(LimSel::Max),
        1 => (0u8..4).prop_map(LimSel::MaxMinus),
    ]
}

pub fn lim_sel_for(giant: bool) -> BoxedStrategy<LimSel> {
    if giant {
        prop_oneof![3 => giant_lim(), 2 => lim_sel()].boxed()
    }
    else {
        lim_sel().boxed()
    }
}

pub fn size_sel_for(boundary: u32, giant: bool) -> BoxedStrategy<SizeSel> {
    if giant {
        prop_oneof![
            6 => (1u8..4, small_d()).prop_map(|(k, d)| SizeSel::Frac(k, d)),
            4 => size_sel(boundary + 4),
        ].boxed()
    }
    else {
        size_sel(boundary).boxed()
    }
}

pub fn lim_sel() -> impl Strategy<Value = LimSel> {
    prop_oneof![
        1 => Just(LimSel::Zero),
        2 => (0u32..6000).prop_map(LimSel::Abs),
        4 => small_d().prop_map(LimSel::CurPlus),
        6 => (0u8..7, small_d()).prop_map(|(n, d)| LimSel::KeepMru(n, d)),
        4 => (0u16..40, small_d()).prop_map(|(n, d)| LimSel::Ents(n, d)),
        1 => Just(LimSel::Max),
        1 => (0u8..4).prop_map(LimSel::MaxMinus),
    ]
}

fn initial_limit(small: bool) -> BoxedStrategy<LimSel> {
    if small {
        prop_oneof![
            1 => Just(LimSel::Zero),
            8 => (1u16..10, small_d()).prop_map(|(n, d)| LimSel::Ents(n, d)),
            2 => (10u16..24, small_d()).prop_map(|(n, d)| LimSel::Ents(n, d)),
            2 => Just(LimSel::Max),
        ].boxed()
    }
    else {
        prop_oneof![
            1 => Just(LimSel::Zero),
            2 => (0u16..2, small_d()).prop_map(|(n, d)| LimSel::Ents(n, d)),
            10 => (2u16..12, small_d()).prop_map(|(n, d)| LimSel::Ents(n, d)),
            5 => (12u16..60, small_d()).prop_map(|(n, d)| LimSel::Ents(n, d)),
            3 => (100u16..3000, small_d()).prop_map(|(n, d)| LimSel::Ents(n, d)),
            3 => Just(LimSel::Max),
            1 => (0u8..4).prop_map(LimSel::MaxMinus),
            2 => giant_lim(),
        ].boxed()
    }
}

pub fn cap_arg(huge_ok: bool) -> BoxedStrategy<CapArg> {
    if huge_ok {
        prop_oneof![
            2 => Just(CapArg::Zero),
            3 => (0u32..200).prop_map(CapArg::Abs),
            1 => (0u32..5000).prop_map(CapArg::Abs),
            4 => small_d().prop_map(CapArg::LenPlus),
            4 => small_d().prop_map(CapArg::CapPlus),
            3 => (0u8..13, small_d()).prop_map(|(e, d)| CapArg::Pow2Plus(e, d)),
            2 => Just(CapArg::Max),
            2 => Just(CapArg::MaxDiv),
        ].boxed()
    }
    else {
        prop_oneof![
            2 => Just(CapArg::Zero),
            3 => (0u32..200).prop_map(CapArg::Abs),
            1 => (0u32..5000).prop_map(CapArg::Abs),
            4 => small_d().prop_map(CapArg::LenPlus),
            4 => small_d().prop_map(CapArg::CapPlus),
            3 => (0u8..13, small_d()).prop_map(|(e, d)| CapArg::Pow2Plus(e, d)),
        ].boxed()
    }
}

pub fn hasher(colliding: u32) -> impl Strategy<Value = HKind> {
    let c = colliding.max(1);
    let s = 10u32.saturating_sub(colliding).max(1);
    prop_oneof![
        s => Just(HKind::Sip),
        s => Just(HKind::Fx),
        s / 2 + 1 => Just(HKind::Identity),
        s / 2 + 1 => Just(HKind::Reseed),
        s / 3 + 1 => Just(HKind::OneOff),
        c => Just(HKind::LowBits(1)),
        c => Just(HKind::LowBits(2)),
        c => Just(HKind::LowBits(4)),
        c => Just(HKind::HighBits),
        c + 1 => Just(HKind::Const),
    ]
}

pub fn iter_kind() -> impl Strategy<Value = IterKind> {
    prop_oneof![
        2 => Just(IterKind::Iter), 1 => Just(IterKind::Keys), 1 => Just(IterKind::Values),
        3 => Just(IterKind::Drain), 2 => Just(IterKind::IntoIter),
        1 => Just(IterKind::IntoKeys), 1 => Just(IterKind::IntoValues),
    ]
}

pub fn walk(forget: u32) -> impl Strategy<Value = Op> {
    let fate = if forget == 0 {
        prop_oneof![10 => Just(Fate::Drop), 1 => (0u8..4).prop_map(Fate::Unwind)].boxed()
    }
    else {
        prop_oneof![10 => Just(Fate::Drop), forget => Just(Fate::Forget), 1 => (0u8..4).prop_map(Fate::Unwind)].boxed()
    };
    let call = prop_oneof![
        8 => Just(Call::Next), 8 => Just(Call::NextBack),
        2 => (0u8..6).prop_map(Call::Nth), 2 => (0u8..6).prop_map(Call::NthBack), 1 => Just(Call::Hint),
    ];
    (iter_kind(), vec(call, 0..10),
        prop_oneof![6 => Just(Rest::Stop), 4 => Just(Rest::Front), 4 => Just(Rest::Back), 4 => Just(Rest::Alternate),
            1 => Just(Rest::Count), 1 => Just(Rest::Last), 1 => Just(Rest::Fold), 1 => Just(Rest::RFold),
            1 => (0u8..5).prop_map(Rest::Skip), 1 => (0u8..4).prop_map(Rest::StepBy),
            1 => (0u8..4).prop_map(Rest::RevStepBy), 1 => (0u8..5).prop_map(Rest::TakeThenFront)],
        fate)
        .prop_map(|(kind, calls, rest, fate)| Op::IterWalk { kind, calls, rest, fate })
}

pub fn op(p: &Profile, universe: u16) -> BoxedStrategy<Op> {
    let b = p.boundary;
    let big = p.big;
    // bulk operations cost constant work per element, so big caches are affordable in every tier
    let many_max: u16 = if big { 3000 } else { 2600 };
    let churn_max: u16 = if big { 1500 } else { 400 };
    let kheap = prop_oneof![6 => Just(0u8), 2 => 1u8..4];
    let mut alts: Vec<(u32, BoxedStrategy<Op>)> = vec![
        (p.insert, (key_sel(universe), kheap.clone(), size_sel_for(b, p.giant))
            .prop_map(|(key, kheap, size)| Op::Insert { key, kheap, size }).boxed()),
        (p.try_insert, (key_sel(universe), kheap, size_sel_for(b, p.giant))
            .prop_map(|(key, kheap, size)| Op::TryInsert { key, kheap, size }).boxed()),
        (p.promote, (key_sel(universe), form(), 0u8..4).prop_map(|(key, form, which)| match which {
            0 => Op::Get { key, form },
            1 => Op::GetEntry { key, form },
            2 => Op::Touch { key, form },
            _ => Op::GetLru,
        }).boxed()),
        (p.peek, (key_sel(universe), form(), 0u8..5).prop_map(|(key, form, which)| match which {
            0 => Op::Peek { key, form },
            1 => Op::PeekEntry { key, form },
            2 => Op::Contains { key, form },
            3 => Op::PeekLru,
            _ => Op::PeekMru,
        }).boxed()),
        (p.remove, (key_sel(universe), form(), 0u8..4).prop_map(|(key, form, which)| match which {
            0 => Op::Remove { key, form },
            1 => Op::RemoveEntry { key, form },
            2 => Op::RemoveLru,
            _ => Op::RemoveMru,
        }).boxed()),
        (p.mutate, (key_sel(universe), form(), size_sel_for(b + 2, p.giant))
            .prop_map(|(key, form, size)| Op::Mutate { key, form, size }).boxed()),
        (p.set_max, lim_sel_for(p.giant).prop_map(Op::SetMaxSize).boxed()),
        (p.retain, (prop_oneof![
                1 => Just(0u64), 1 => Just(!0u64), 1 => Just(0x5555_5555_5555_5555u64),
                1 => Just(!1u64), 1 => Just(1u64), 6 => any::<u64>()],
            any::<bool>()).prop_map(|(mask, by_key)| Op::Retain { mask, by_key }).boxed()),
        (p.clear, Just(Op::Clear).boxed()),
        (p.capacity, prop_oneof![
            3 => cap_arg(false).prop_map(Op::Reserve),
            4 => (cap_arg(true), prop_oneof![3 => Just(false), 2 => Just(true)])
                .prop_map(|(arg, fail_alloc)| Op::TryReserve { arg, fail_alloc }),
            4 => cap_arg(false).prop_map(Op::ShrinkTo),
            4 => Just(Op::ShrinkToFit),
        ].boxed()),
        (p.walk, walk(p.forget).boxed()),
        (p.debug, Just(Op::Debug).boxed()),
        (p.clone, prop_oneof![2 => Just(CloneMode::Check), 2 => Just(CloneMode::Swap), 3 => Just(CloneMode::Fork), 2 => Just(CloneMode::From), 1 => Just(CloneMode::Unwinding)]
            .prop_map(Op::Clone).boxed()),
        (p.scalars, Just(Op::Scalars).boxed()),
        (p.insert_many, (prop_oneof![if big { 4 } else { 9 } => 1u16..40, 1 => 40u16..=many_max], 0u16..40)
            .prop_map(|(count, vheap)| Op::InsertMany { count, vheap }).boxed()),
        (p.churn, (prop_oneof![if big { 4 } else { 9 } => 1u16..60, 1 => 60u16..=churn_max], 0u8..3)
            .prop_map(|(rounds, which)| Op::Churn { rounds, which }).boxed()),
        (p.side, (0u8..3).prop_map(Op::Side).boxed()),
        (p.inject, (proptest::sample::select(PANIC_KINDS.to_vec()), 1u16..7, any::<bool>())
            .prop_map(|(cb, nth, late)| Op::Inject { cb, nth, late }).boxed()),
    ];
    alts.retain(|(w, _)| *w > 0);
    proptest::strategy::Union::new_weighted(alts).boxed()
}

pub fn config(p: &Profile) -> impl Strategy<Value = Config> {
    let universe = if p.small {
        prop_oneof![3 => Just(4u16), 4 => Just(16u16)].boxed()
    }
    else if p.big {
        prop_oneof![2 => Just(4u16), 4 => Just(16u16), 4 => Just(64u16), 2 => Just(256u16), 2 => Just(1024u16), 1 => Just(4096u16)].boxed()
    }
    else {
        prop_oneof![2 => Just(4u16), 5 => Just(16u16), 3 => Just(64u16), 1 => Just(256u16), 1 => Just(4096u16)].boxed()
    };
    let capacity = prop_oneof![
        5 => Just(None),
        6 => proptest::sample::select(CAPACITIES[1..12].to_vec()),
        1 => proptest::sample::select(CAPACITIES[12..].to_vec()),
    ];
    (hasher(p.colliding), capacity, initial_limit(p.small), universe)
        .prop_map(|(hasher, capacity, limit, universe)| Config { hasher, capacity, limit, universe })
}

pub fn case(p: &Profile) -> BoxedStrategy<Case> {
    let p = p.clone();
    (config(&p), any::<bool>()).prop_flat_map(move |(config, coin)| {
        let u = config.universe;
        let lens = prop_oneof![6 => 0..(p.max_ops / 3 + 2), 3 => 0..(p.max_ops + 1)];
        let mut pp = p.clone();
        // limits of the order of usize::MAX: entries of that magnitude
        pp.giant = match config.limit.class() { "giant" => true, "max" | "maxminus" => coin, _ => false };
        if pp.giant {
            pp.insert_many = 0;
            pp.churn = 0;
        }
        let ops = lens.prop_flat_map({
            move |n| vec(op(&pp, u), n..=n)
        });
        (Just(config), ops)
    }).prop_map(|(config, ops)| Case { config, ops }).boxed()
}

/// C16: small prefix, one victim operation, a suffix. The driver enumerates
/// every crash point of the victim.
#[derive(Clone, Debug)]
pub struct PanicCase {
    pub config: Config,
    pub prefix: Vec<Op>,
    pub victim: Op,
    pub late: bool,
    pub suffix: Vec<Op>,
}

pub fn panic_case(drops: bool) -> BoxedStrategy<PanicCase> {
    let mut p = Profile::base("panic");
    p.small = true;
    p.insert = 40;
    p.insert_many = 3;
    p.churn = 0;
    p.side = 0;
    p.inject = 0;
    p.clone = 1;
    p.walk = 1;
    p.clear = 0;
    p.remove = 8;
    p.capacity = 6;
    p.colliding = 6;
    let mut v = p.clone();
    v.insert = 16; v.try_insert = 6; v.promote = 8; v.peek = 4; v.remove = 8; v.mutate = 12;
    v.set_max = 6; v.retain = 8; v.capacity = 14; v.clone = 8; v.walk = 0; v.debug = 0;
    v.scalars = 0; v.insert_many = 0; v.churn = 0; v.side = 0; v.clear = 0;
    if drops {
        // victims that run destructors: evicting insert / mutate / set_max_size,
        // replacement, retain, clear, owning iterators (skipping, dropping), clone_from
        v.boundary = 12;
        v.insert = 20; v.try_insert = 0; v.promote = 0; v.peek = 0; v.remove = 0; v.mutate = 10;
        v.set_max = 10; v.retain = 10; v.capacity = 10; v.clone = 6; v.walk = 24; v.clear = 6; v.forget = 5;
    }
    let mut s = Profile::base("suffix");
    s.small = true; s.side = 0; s.inject = 0; s.churn = 1; s.walk = 6; s.capacity = 10;
    config(&p).prop_flat_map(move |config| {
        let u = config.universe;
        // one in six states is big (hundreds of entries): operations that walk
        // or rebuild the whole table then have hundreds of crash points
        let bulk = prop_oneof![30 => Just(None), 6 => (60u16..300).prop_map(Some), 1 => (1030u16..2200).prop_map(Some)];
        (Just(config), bulk, vec(op(&p, u), 0..14), op(&v, u), any::<bool>(), vec(op(&s, u), 0..10))
    }).prop_map(|(mut config, bulk, mut prefix, victim, late, suffix)| {
        if let Some(n) = bulk {
            config.universe = 4096;
            config.limit = LimSel::Max;
            prefix.insert(0, Op::InsertMany { count: n, vheap: 1 });
        }
        PanicCase { config, prefix, victim, late, suffix }
    }).boxed()
}

/// Random walks that keep a table of fixed size near its capacity: many
/// replacements, removals and re-insertions over a key universe only a few
/// times the table size, no capacity operations. Explores the hash table's
/// control-byte configurations (tombstones, displaced entries, exhausted growth
/// budget) far more densely than the general profile.
pub fn dense_case() -> BoxedStrategy<Case> {
    let tables = prop_oneof![3 => Just((28u32, 64u16)), 3 => Just((56u32, 128u16)), 2 => Just((112u32, 256u16)), 1 => Just((14u32, 32u16))];
    let hashers = prop_oneof![4 => Just(HKind::Identity), 2 => Just(HKind::Fx), 1 => Just(HKind::Sip), 1 => Just(HKind::LowBits(4))];
    (tables, hashers, 40usize..260).prop_flat_map(|((cap, universe), hasher, n)| {
        let raw = (0..universe).prop_map(KeySel::Raw);
        let op = prop_oneof![
            30 => (raw.clone(), 0u32..3).prop_map(|(key, v)| Op::Insert { key, kheap: 0, size: SizeSel::Abs(v) }),
            6 => (0..universe).prop_map(|j| Op::Insert { key: KeySel::Absent(j), kheap: 0, size: SizeSel::Zero }),
            4 => any::<u16>().prop_map(|i| Op::Insert { key: KeySel::Nth(i), kheap: 0, size: SizeSel::Abs(1) }),
            14 => (raw.clone(), form()).prop_map(|(key, form)| Op::Remove { key, form }),
            8 => (any::<u16>(), form()).prop_map(|(i, form)| Op::RemoveEntry { key: KeySel::Nth(i), form }),
            2 => Just(Op::RemoveLru),
            2 => Just(Op::RemoveMru),
            3 => (raw.clone(), form()).prop_map(|(key, form)| Op::Get { key, form }),
            2 => (raw.clone()).prop_map(|key| Op::TryInsert { key, kheap: 0, size: SizeSel::Zero }),
            2 => (any::<u16>(), form(), 0u32..4).prop_map(|(i, form, v)| Op::Mutate { key: KeySel::Nth(i), form, size: SizeSel::Abs(v) }),
            1 => any::<u64>().prop_map(|mask| Op::Retain { mask: mask | 0xff00_ff00_ff00_ff00, by_key: true }),
            1 => Just(Op::Clone(CloneMode::Check)),
            1 => (1u16..30).prop_map(|c| Op::InsertMany { count: c, vheap: 0 }),
        ];
        (Just(Config { hasher, capacity: Some(cap), limit: LimSel::Max, universe }), vec(op, n..=n))
    }).prop_map(|(config, mut ops)| {
        // start from a full table
        ops.insert(0, Op::InsertMany { count: config.capacity.unwrap_or(0) as u16, vheap: 0 });
        Case { config, ops }
    }).boxed()
}

pub const PANIC_KINDS: [Cb; 11] = [
    Cb::Hash, Cb::Eq, Cb::CloneK, Cb::CloneV, Cb::SizeK, Cb::SizeV, Cb::Closure, Cb::Pred,
    Cb::DropK, Cb::DropV, Cb::Reenter,
];

pub fn all_hkinds() -> &'static [HKind] {
    &ALL_HKINDS
}
