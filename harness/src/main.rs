//! vcheck: orchestrator, worker and replay entry points.

use std::collections::BTreeMap;
use std::path::{Path, PathBuf};
use std::process::{Child, Command, Stdio};
use std::time::{Duration, Instant};

use serde_json::{json, Value};

use lruverif::engines::{self, WorkerArgs};
use lruverif::ops::{Case, Fate};
use lruverif::runner::*;

#[global_allocator]
static GLOBAL: lruverif::alloc::VAlloc = lruverif::alloc::VAlloc;

fn root() -> PathBuf {
    PathBuf::from(std::env::var("VERIF_ROOT").unwrap_or_else(|_| "/verif".to_string()))
}

fn arg_value(args: &[String], name: &str) -> Option<String> {
    args.iter().position(|a| a == name).and_then(|i| args.get(i + 1)).cloned()
}

fn main() {
    let args: Vec<String> = std::env::args().collect();
    lruverif::detect_alloc();
    let code = match args.get(1).map(|s| s.as_str()) {
        Some("run") => orchestrate(&args[2..]),
        Some("worker") => worker(&args[2..]),
        Some("replay") => replay(&args[2..]),
        Some("exec-case") => exec_case(&args[2..]),
        Some("gen-corpus") => gen_corpus(&args[2..]),
        _ => {
            eprintln!("usage: vcheck run <PROP> [--tier quick|thorough] [--seed N]\n       vcheck replay <PROP> <file>");
            2
        }
    };
    std::process::exit(code);
}

// ------------------------------------------------------------------ worker

fn worker(args: &[String]) -> i32 {
    let prop = match args.first().and_then(|p| static_prop(p)) {
        Some(p) => p,
        None => { eprintln!("worker: unknown property"); return 2; }
    };
    let engine = args.get(1).cloned().unwrap_or_default();
    let seed: u64 = arg_value(args, "--seed").and_then(|s| s.parse().ok()).unwrap_or(0);
    let index: u64 = arg_value(args, "--index").and_then(|s| s.parse().ok()).unwrap_or(0);
    let nworkers: u64 = arg_value(args, "--nworkers").and_then(|s| s.parse().ok()).unwrap_or(1);
    let cases: u32 = arg_value(args, "--cases").and_then(|s| s.parse().ok()).unwrap_or(100);
    let thorough = args.iter().any(|a| a == "--thorough");
    let out = PathBuf::from(arg_value(args, "--out").unwrap_or_else(|| "/dev/null".into()));
    lruverif::tracked::install_panic_hook(true);
    let known = load_known(&root());
    let wa = WorkerArgs { prop, thorough, seed, index, nworkers, cases, out: &out, known: &known };
    let acc = match engine.as_str() {
        "cache" => engines::worker_cache(&wa),
        "dense" => engines::worker_dense(&wa),
        "corpus" => engines::worker_corpus(&wa, &root().join("corpus/cache")),
        "panic" => engines::worker_panic(&wa, false),
        "panic-drop" => engines::worker_panic(&wa, true),
        "walks" => engines::worker_walks(&wa, Fate::Drop, 6, 3),
        "walks-forget" => engines::worker_walks(&wa, Fate::Forget, 6, 1),
        "walks-pos" => engines::worker_walks(&wa, Fate::Drop, if wa.thorough { 6 } else { 5 }, usize::MAX),
        "walks-pos-forget" => engines::worker_walks(&wa, Fate::Forget, 4, usize::MAX),
        "probes" => engines::worker_probes(&wa, &root()),
        "shared" => engines::worker_shared(&wa),
        "variants" => engines::worker_variants(&wa),
        "geometry" => engines::worker_geometry(&wa),
        "mem" => engines::worker_mem(&wa),
        "mem-big" => engines::worker_mem_big(&wa),
        "huge" => engines::worker_huge(&wa),
        "stdvals" => engines::worker_stdvals(&wa),
        other => { eprintln!("worker: unknown engine {}", other); return 2; }
    };
    let text = serde_json::to_string(&acc.to_json()).unwrap();
    if std::fs::write(&out, text).is_err() {
        eprintln!("worker: cannot write {}", out.display());
        return 2;
    }
    let _ = std::fs::remove_file(current_file(&out));
    0
}

/// Writes byte-encoded generated cases (fuzz seeds) into a directory.
fn gen_corpus(args: &[String]) -> i32 {
    let dir = match args.first() { Some(d) => PathBuf::from(d), None => return 2 };
    let n: u32 = args.get(1).and_then(|s| s.parse().ok()).unwrap_or(200);
    let _ = std::fs::create_dir_all(&dir);
    let cases = engines::sample_cases(n, 4242);
    for (i, c) in cases.iter().enumerate() {
        let _ = std::fs::write(dir.join(format!("seed-{:04}", i)), c.to_bytes());
    }
    println!("wrote {} seeds to {}", cases.len(), dir.display());
    0
}

/// Runs one case file and exits normally; used to test whether a case
/// crashes the process.
fn exec_case(args: &[String]) -> i32 {
    let prop = args.first().and_then(|p| static_prop(p));
    let text = match args.get(1).map(std::fs::read_to_string) {
        Some(Ok(t)) => t,
        _ => return 2,
    };
    lruverif::tracked::install_panic_hook(true);
    if let Some(line) = text.lines().find(|l| l.starts_with("memsize")) {
        return match engines::run_mem_line(line) { Ok(_) => 0, Err(_) => 2 };
    }
    if let Some(v) = text.lines().find_map(|l| l.strip_prefix("variant ")) {
        let body: String = text.lines().filter(|l| !l.starts_with("variant ")).collect::<Vec<_>>().join("\n");
        return match Case::from_text(&body) {
            Ok(c) => { let _ = lruverif::variants::run_variant(v.trim(), &c); 0 },
            Err(_) => 2,
        };
    }
    if text.lines().any(|l| l.starts_with("shared t=")) {
        return match lruverif::shared::SharedCase::from_text(&text) {
            Ok(c) => { let o = lruverif::shared::run_shared(&c); if o.failures.is_empty() { 0 } else { 3 } },
            Err(_) => 2,
        };
    }
    if text.lines().any(|l| l.starts_with("huge ")) {
        return match lruverif::huge::HugeCase::from_text(&text) {
            Some(c) => { let _ = lruverif::huge::run_huge(&c); 0 },
            None => 2,
        };
    }
    if let Some(line) = text.lines().find(|l| l.starts_with("stdvals ")) {
        return match engines::run_stdvals_line(line) { Ok(_) => 0, Err(_) => 2 };
    }
    match Case::from_text(&text) {
        Ok(case) => { let _ = run_case(&case, prop, false); 0 },
        Err(_) => 2,
    }
}

fn replay(args: &[String]) -> i32 {
    let prop = match args.first().and_then(|p| static_prop(p)) {
        Some(p) => p,
        None => { eprintln!("replay: unknown property"); return 2; }
    };
    let path = match args.get(1) { Some(p) => p.clone(), None => return 2 };
    let text = match std::fs::read_to_string(&path) {
        Ok(t) => t,
        Err(e) => { eprintln!("replay: {}: {}", path, e); return 2; }
    };
    lruverif::tracked::install_panic_hook(false);
    if let Some(line) = text.lines().find(|l| l.starts_with("memsize")) {
        // run in a child first: a stack overflow must become a verdict
        let exe = std::env::current_exe().unwrap();
        let st = Command::new(&exe).arg("exec-case").arg(prop).arg(&path).status();
        let crashed = st.map(|s| s.code().map(|c| c != 0 && c != 2).unwrap_or(true)).unwrap_or(false);
        if crashed {
            println!("FAILURE the process died while evaluating: {}", line);
            println!("VIOLATION property={} replay={}", prop, path);
            return 1;
        }
        return match engines::run_mem_line(line) {
            Ok((d, fails)) => {
                println!("  {}", d);
                let known = load_known(&root());
                let mut code = 0;
                for f in &fails {
                    println!("FAILURE tags={} sig={} : {}", f.tags.join("+"), f.sig, f.msg);
                    if f.tags.contains(&prop) && is_known(&known, prop, &f.sig).is_none() { code = 1; }
                }
                if code == 1 { println!("VIOLATION property={} replay={}", prop, path); }
                else { println!("replay: property {} held on this case", prop); }
                code
            },
            Err(e) => { eprintln!("replay: {}", e); 2 },
        };
    }
    if let Some(line) = text.lines().find(|l| l.starts_with("probe ")) {
        let get = |k: &str| line.split_whitespace().find_map(|x| x.strip_prefix(k)).map(|s| s.to_string());
        let id = get("id=").unwrap_or_default();
        let seed: u64 = get("seed=").and_then(|s| s.parse().ok()).unwrap_or(0);
        let nestings: usize = get("nestings=").and_then(|s| s.parse().ok()).unwrap_or(4);
        return match lruverif::probes::run_all(&root(), &lruverif::probes::repo_path(), seed, nestings) {
            Err(e) => { eprintln!("replay: inconclusive: {}", e); 2 },
            Ok(run) => match run.results.iter().find(|r| r.probe.id == id) {
                None => { eprintln!("replay: no probe {}", id); 2 },
                Some(r) if r.ok => { println!("replay: probe {} has its expected verdict; property {} held on this case", id, prop); 0 },
                Some(r) => {
                    println!("FAILURE {}: {}", id, r.why);
                    println!("VIOLATION property={} replay={}", prop, path);
                    1
                },
            },
        };
    }
    if let Some(line) = text.lines().find(|l| l.starts_with("stdvals ")) {
        return match engines::run_stdvals_line(line) {
            Ok((d, fails)) => {
                println!("  {}", d);
                let known = load_known(&root());
                let mut code = 0;
                for f in &fails {
                    println!("FAILURE tags={} sig={} : {}", f.tags.join("+"), f.sig, f.msg);
                    if f.tags.contains(&prop) && is_known(&known, prop, &f.sig).is_none() { code = 1; }
                }
                if code == 1 { println!("VIOLATION property={} replay={}", prop, path); }
                else { println!("replay: property {} held on this case", prop); }
                code
            },
            Err(e) => { eprintln!("replay: {}", e); 2 },
        };
    }
    if text.lines().any(|l| l.starts_with("huge ")) {
        let case = match lruverif::huge::HugeCase::from_text(&text) { Some(c) => c, None => { eprintln!("replay: malformed huge case"); return 2; } };
        let known = load_known(&root());
        let out = lruverif::huge::run_huge(&case);
        let mut code = 0;
        for f in &out.fails {
            println!("FAILURE tags={} sig={} : {}", f.tags.join("+"), f.sig, f.msg);
            if f.tags.contains(&prop) && is_known(&known, prop, &f.sig).is_none() { code = 1; }
        }
        if code == 1 { println!("VIOLATION property={} replay={}", prop, path); }
        else { println!("replay: property {} held on this case ({} state checks)", prop, out.checks); }
        return code;
    }
    if let Some(v) = text.lines().find_map(|l| l.strip_prefix("variant ")) {
        let body: String = text.lines().filter(|l| !l.starts_with("variant ")).collect::<Vec<_>>().join("\n");
        let case = match Case::from_text(&body) { Ok(c) => c, Err(e) => { eprintln!("replay: {}", e); return 2; } };
        let known = load_known(&root());
        let out = match lruverif::variants::run_variant(v.trim(), &case) { Some(o) => o, None => { eprintln!("replay: unknown variant {}", v); return 2; } };
        for f in &out.fails {
            println!("FAILURE tags={} sig={} step={} : {}", f.tags.join("+"), f.sig, f.step, f.msg);
        }
        return match judge(&out.fails, prop, &known) {
            Verdict::Violation(_) => { println!("VIOLATION property={} replay={}", prop, path); 1 },
            Verdict::Known(sig) => { println!("KNOWN-FINDING: property={} {}", prop, sig); 0 },
            _ => { println!("replay: property {} held on this case", prop); 0 },
        };
    }
    let case = match Case::from_text(&text) {
        Ok(c) => c,
        Err(e) => { eprintln!("replay: {}", e); return 2; }
    };
    let known = load_known(&root());
    let out = run_case(&case, Some(prop), true);
    for t in &out.trace {
        println!("  {}", t);
    }
    for f in &out.fails {
        println!("FAILURE tags={} sig={} step={} : {}", f.tags.join("+"), f.sig, f.step, f.msg);
    }
    match judge(&out.fails, prop, &known) {
        Verdict::Violation(_) => {
            println!("VIOLATION property={} replay={}", prop, path);
            1
        },
        Verdict::Known(sig) => {
            println!("KNOWN-FINDING: property={} {}", prop, sig);
            0
        },
        _ => {
            println!("replay: property {} held on this case", prop);
            0
        },
    }
}

// ------------------------------------------------------------ orchestrator

#[derive(Clone, Debug)]
struct Job {
    engine: &'static str,
    /// which build of the harness runs it: "" (this binary), "opt0", "release"
    build: &'static str,
    asan: bool,
    workers: u64,
    cases: u32,
    timeout_s: u64,
}

fn jobs_for(prop: &str, thorough: bool) -> Vec<Job> {
    let mut jobs = jobs_for_inner(prop, thorough);
    let cache_family = !matches!(prop, "C08" | "C09" | "C18");
    if matches!(prop, "C01" | "C02" | "C03" | "C04" | "C05" | "C06" | "C07" | "C10" | "C11" | "C12" | "C13" | "C14" | "C15" | "C17" | "C19") {
        jobs.push(Job { engine: "variants", build: "", asan: false, workers: 16, cases: if thorough { 6000 } else { 400 }, timeout_s: 3600 });
        if matches!(prop, "C06" | "C07" | "C12" | "C17") {
            jobs.push(Job { engine: "variants", build: "", asan: true, workers: 16, cases: if thorough { 1000 } else { 100 }, timeout_s: 3600 });
        }
    }
    if matches!(prop, "C02" | "C04" | "C05" | "C06" | "C07" | "C10" | "C13" | "C15" | "C20") {
        jobs.push(Job { engine: "dense", build: "", asan: false, workers: 16, cases: if thorough { 10000 } else { 300 }, timeout_s: 3600 });
    }
    if matches!(prop, "C02" | "C04" | "C05" | "C06" | "C07" | "C10" | "C13" | "C15" | "C20") {
        jobs.push(Job { engine: "geometry", build: "", asan: false, workers: 16, cases: 0, timeout_s: 1800 });
        if matches!(prop, "C06" | "C07") {
            jobs.push(Job { engine: "geometry", build: "", asan: true, workers: 16, cases: 0, timeout_s: 1800 });
        }
    }
    if matches!(prop, "C04" | "C07") {
        // state that survives a caught panic (C16's crash points, judged for what
        // lookups and traversals show afterwards)
        jobs.push(Job { engine: "panic", build: "", asan: false, workers: 16, cases: if thorough { 600 } else { 40 }, timeout_s: if thorough { 5400 } else { 900 } });
    }
    if matches!(prop, "C02" | "C03" | "C04" | "C06" | "C07" | "C10" | "C11" | "C12" | "C13" | "C14" | "C15" | "C17") {
        // every crash point inside a destructor the victim operation runs
        jobs.push(Job { engine: "panic-drop", build: "", asan: false, workers: 16, cases: if thorough { 600 } else { 60 }, timeout_s: if thorough { 5400 } else { 900 } });
        if matches!(prop, "C06" | "C07" | "C12") {
            jobs.push(Job { engine: "panic-drop", build: "", asan: true, workers: 16, cases: if thorough { 200 } else { 15 }, timeout_s: if thorough { 5400 } else { 900 } });
        }
    }
    if matches!(prop, "C02" | "C04" | "C05" | "C06" | "C07" | "C12" | "C13" | "C14" | "C15" | "C19" | "C20") {
        // more than 2^16 entries: one script per worker in the quick tier
        jobs.push(Job { engine: "huge", build: "", asan: false, workers: 16, cases: if thorough { 12 } else { 1 }, timeout_s: 3600 });
    }
    if thorough && matches!(prop, "C02" | "C04" | "C07") {
        // the same exploration in the release profile (no overflow checks, no debug
        // assertions, full optimisation): behaviour that differs by build profile
        jobs.push(Job { engine: "cache", build: "release", asan: false, workers: 16, cases: 8000, timeout_s: 3600 });
    }
    if matches!(prop, "C01" | "C02" | "C10" | "C11") {
        // std value types measured by the crate's own estimates
        jobs.push(Job { engine: "stdvals", build: "", asan: false, workers: 16, cases: if thorough { 20000 } else { 1500 }, timeout_s: 1800 });
    }
    if cache_family {
        jobs.insert(0, Job { engine: "corpus", build: "", asan: false, workers: 1, cases: 0, timeout_s: 600 });
        if thorough {
            jobs.push(Job { engine: "fuzz_cache", build: "fuzz", asan: true, workers: 16, cases: 20_000, timeout_s: 2400 });
        }
    }
    else if thorough && prop != "C18" {
        jobs.push(Job { engine: "fuzz_memsize", build: "fuzz", asan: true, workers: 16, cases: 40_000, timeout_s: 2400 });
    }
    jobs
}

fn jobs_for_inner(prop: &str, thorough: bool) -> Vec<Job> {
    let t = thorough;
    let cache = |asan: bool, q: u32, th: u32| Job { engine: "cache", build: "", asan, workers: 16, cases: if t { th } else { q }, timeout_s: if t { 5400 } else { 900 } };
    match prop {
        "C01" | "C02" | "C03" | "C04" | "C05" | "C10" | "C11" | "C13" | "C15" | "C20" =>
            vec![cache(false, 4000, 25000)],
        "C19" => vec![
            cache(false, 4000, 25000),
            // ThreadSanitizer first: a write through &self is reported there before it can make a reader loop
            Job { engine: "shared", build: "tsan", asan: false, workers: 16, cases: if t { 1500 } else { 100 }, timeout_s: if t { 3600 } else { 900 } },
            Job { engine: "shared", build: "", asan: false, workers: 16, cases: if t { 1500 } else { 150 }, timeout_s: if t { 3600 } else { 600 } },
        ],
        "C06" | "C07" | "C14" =>
            vec![cache(false, 4000, 25000), cache(true, 600, 5000)],
        "C12" => vec![
            Job { engine: "walks", build: "", asan: false, workers: 16, cases: 0, timeout_s: 1800 },
            Job { engine: "walks-pos", build: "", asan: false, workers: 16, cases: 0, timeout_s: 1800 },
            cache(false, 300, 3000),
            Job { engine: "walks", build: "", asan: true, workers: 16, cases: 0, timeout_s: 1800 },
            cache(true, 60, 800),
        ],
        "C16" => vec![
            Job { engine: "panic", build: "", asan: false, workers: 16, cases: if t { 1500 } else { 120 }, timeout_s: if t { 5400 } else { 900 } },
            Job { engine: "panic", build: "", asan: true, workers: 16, cases: if t { 400 } else { 30 }, timeout_s: if t { 5400 } else { 900 } },
        ],
        "C18" => vec![Job { engine: "probes", build: "", asan: false, workers: 1, cases: 0, timeout_s: 1800 }],
        "C08" => vec![
            Job { engine: "mem", build: "", asan: false, workers: 16, cases: if t { 40000 } else { 3000 }, timeout_s: 3600 },
            Job { engine: "mem-big", build: "opt0", asan: false, workers: 14, cases: 0, timeout_s: 1800 },
            Job { engine: "mem-big", build: "release", asan: false, workers: 14, cases: 0, timeout_s: 1800 },
        ],
        "C09" => vec![
            Job { engine: "mem", build: "", asan: false, workers: 16, cases: if t { 40000 } else { 3000 }, timeout_s: 3600 },
        ],
        "C17" => vec![
            Job { engine: "walks-forget", build: "", asan: false, workers: 16, cases: 0, timeout_s: 1800 },
            Job { engine: "walks-pos-forget", build: "", asan: false, workers: 16, cases: 0, timeout_s: 1800 },
            cache(false, 200, 3000),
            Job { engine: "walks-forget", build: "", asan: true, workers: 16, cases: 0, timeout_s: 1800 },
            cache(true, 50, 800),
        ],
        _ => vec![],
    }
}

fn level_of(prop: &str) -> &'static str {
    match prop {
        "C16" | "C17" => "fault_enumeration",
        _ => "exploration",
    }
}

fn rule_of(prop: &str) -> &'static str {
    match prop {
        "C01" => "cases = generated configuration + operation sequence, judged after every step; non-trivial = a step where the incoming/grown entry exceeded the free space or a limit was lowered below current_size; distinct = (operation, hasher class, boundary selector class)",
        "C02" => "non-trivial = a size-changing mutate, an overflowing mutate or a different-size replacement happened (entry later leaves through any path); distinct = (kind, direction, position of the entry)",
        "C03" => "non-trivial = an operation evicted at least one entry; distinct = (operation, hasher class, number evicted capped at 4, subject was LRU, replacement)",
        "C04" => "non-trivial = under a colliding hasher, a key was replaced/removed-and-reinserted or the table was rebuilt; distinct = (event, operation, hasher)",
        "C05" => "non-trivial = a promoting operation hit a non-MRU entry in a cache of >= 3 entries, or a table rebuild happened between two order checks; distinct = (operation, position class, hasher class)",
        "C06" => "non-trivial = an owning iterator was dropped partially consumed, or the table was rebuilt with entries inside; distinct = (event, iterator kind / operation, consumption class)",
        "C07" => "non-trivial = a capacity operation rebuilt a table holding >= 8 entries; distinct = (grow/shrink, hasher class, size class)",
        "C08" => "cases = (menu type, generator bytes): one value checked for mem = value + heap and heap == element-wise structural sum, then the four bulk helpers over 8 iterator adaptors of generated elements of that type; plus large element counts on a 2 MiB stack; non-trivial = type with >= 2 nesting levels and spare capacity somewhere or >= 2 elements under an adaptor; distinct = (type, adaptor) / (big kind, count)",
        "C09" => "cases = (menu type, generator bytes) built by with_capacity/push/extend/reserve/shrink/truncate scripts at every nesting level, heap_size compared with the live bytes the counting global allocator attributes to the value; non-trivial = some level holds capacity beyond its length; distinct = type",
        "C10" => "non-trivial = a rejection with >= 2 simultaneously true failure conditions, or an acceptance at exact fit; distinct = (operation, expected outcome, condition vector)",
        "C11" => "non-trivial = a size-changing mutate on a cache of >= 2 entries; distinct = (shrink / grow-fit / grow-evict1 / grow-evictN / overflow, position, hasher class)",
        "C12" => "non-trivial = a walk on length >= 2 mixing next and next_back and calling past exhaustion; distinct = (iterator kind, length, call pattern)",
        "C13" => "non-trivial = a capacity operation that rebuilt the table of a non-empty cache, a failing try_reserve on a non-empty cache, or a churn of >= 200 rounds; distinct = (operation, argument class, hasher class)",
        "C14" => "non-trivial = clone of a cache with >= 3 entries of mixed sizes; distinct = (hasher class, length class, what happens to the clone)",
        "C15" => "non-trivial = a retain that rejects >= 1 and keeps >= 1 of >= 3 entries; distinct = (length, keep/reject pattern)",
        "C16" => "cases = (state, victim operation, callback kind, n) with a panic injected at the n-th callback of that kind, every n enumerated per state; non-trivial = the victim had already changed something, n >= 2, or the panic came from the closure/predicate; distinct = (victim, callback kind, n class, table rebuilt)",
        "C17" => "non-trivial = an iterator forgotten after >= 1 yielded item on length >= 2, followed by further use; distinct = (iterator kind, length, items yielded)",
        "C18" => "cases = generated Rust probe programs type-/borrow-checked by rustc against the current tree: generic positive Send/Sync obligations, a witness lacking exactly one trait in each of K, V, S (plain and randomly nested), and for every API returning a reference or borrowing iterator x every conflicting action a use-after program (must be rejected with a borrow error) and its use-before twin (must be accepted); every probe is non-trivial (each has an expected verdict that a regression flips); distinct = probe id",
        "C19" => "non-trivial = a shared-reference operation on a cache with >= 2 entries that hits a non-MRU entry / absent key / full traversal; distinct = (operation, position, key form)",
        "C20" => "non-trivial = an operation on a cache with >= 8 entries; distinct = (operation, evicting, rebuilding, size class)",
        _ => "",
    }
}

fn bin_path(asan: bool, build: &str) -> PathBuf {
    let h = root().join("harness");
    if build == "tsan" {
        return h.join("target-tsan/x86_64-unknown-linux-gnu/debug/vcheck");
    }
    if !build.is_empty() {
        return h.join("target").join(build).join("vcheck");
    }
    if asan {
        h.join("target-asan/x86_64-unknown-linux-gnu/debug/vcheck")
    }
    else {
        std::env::current_exe().unwrap_or_else(|_| h.join("target/debug/vcheck"))
    }
}

struct Running {
    child: Child,
    out: PathBuf,
    index: u64,
    started: Instant,
}

/// Is a process crash while running this case evidence about `prop`?
fn crash_relevant(prop: &str, case_text: &str) -> bool {
    match prop {
        "C06" | "C07" | "C08" => true,
        "C12" => case_text.contains("iterwalk"),
        "C13" => case_text.contains("refuse"),
        "C14" => case_text.contains("clone"),
        "C16" => case_text.contains("inject"),
        "C17" => case_text.contains("forget"),
        _ if case_text.contains("variant ") => matches!(prop, "C06" | "C07" | "C12" | "C17"),
        "C19" => case_text.contains("shared t="),
        _ => false,
    }
}

fn crashes(bin: &Path, asan: bool, prop: &str, file: &Path) -> bool {
    let mut cmd = Command::new(bin);
    cmd.arg("exec-case").arg(prop).arg(file).stdout(Stdio::null()).stderr(Stdio::null());
    if asan {
        cmd.env("ASAN_OPTIONS", "detect_leaks=0:exitcode=77:abort_on_error=0:allocator_may_return_null=1");
    }
    cmd.env("TSAN_OPTIONS", "halt_on_error=1:exitcode=66:report_signal_unsafe=0");
    // with a watchdog: a case that hangs is not a crash
    let mut child = match cmd.spawn() { Ok(c) => c, Err(_) => return false };
    let started = Instant::now();
    loop {
        match child.try_wait() {
            Ok(Some(s)) => return s.code().map(|c| c != 0 && c != 2 && c != 101).unwrap_or(true),
            Ok(None) => {
                if started.elapsed() > Duration::from_secs(120) {
                    let _ = child.kill();
                    let _ = child.wait();
                    return false;
                }
                std::thread::sleep(Duration::from_millis(20));
            },
            Err(_) => return false,
        }
    }
}

/// One libFuzzer campaign: `workers` independent processes with fixed work
/// (-runs) and derived seeds, ASan build, oracle inside the target.
fn run_fuzz_job(prop: &'static str, job: &Job, seed: u64, tmp: &Path, root: &Path, known: &[Known])
        -> (Accum, Vec<String>, Vec<(String, String)>) {
    let mut acc = Accum::default();
    let mut incon = Vec::new();
    let mut crashes = Vec::new();
    let bin = root.join("fuzz/target/x86_64-unknown-linux-gnu/release").join(job.engine);
    if !bin.exists() {
        incon.push(format!("fuzz target {} is not built", bin.display()));
        return (acc, incon, crashes);
    }
    let seeds = root.join("corpus").join(job.engine);
    let work = tmp.join(format!("fuzz-{}", job.engine));
    let art = work.join("art");
    let _ = std::fs::create_dir_all(&art);
    let stats = work.join("stats");
    let mut children = Vec::new();
    for i in 0..job.workers {
        let cdir = work.join(format!("c{}", i));
        let _ = std::fs::create_dir_all(&cdir);
        let log = std::fs::File::create(work.join(format!("fuzz-{}.log", i))).ok();
        let mut cmd = Command::new(&bin);
        cmd.arg(&cdir);
        if seeds.exists() { cmd.arg(&seeds); }
        cmd.arg(format!("-runs={}", job.cases))
            .arg(format!("-seed={}", (seed % 1_000_000_000) * 32 + i + 1))
            .arg("-len_control=0").arg("-max_len=384").arg("-detect_leaks=0")
            .arg("-print_final_stats=1").arg("-timeout=120").arg("-rss_limit_mb=6000")
            .arg(format!("-max_total_time={}", job.timeout_s))
            .arg(format!("-artifact_prefix={}/w{}-", art.display(), i))
            .env("VERIF_PROP", prop).env("VERIF_ROOT", root).env("VERIF_FUZZ_STATS", &stats)
            .env("ASAN_OPTIONS", "detect_leaks=0:allocator_may_return_null=1:abort_on_error=0:quarantine_size_mb=16:malloc_context_size=0")
            .current_dir(&work).stdout(Stdio::null());
        match log { Some(f) => { cmd.stderr(Stdio::from(f)); }, None => { cmd.stderr(Stdio::null()); } }
        match cmd.spawn() {
            Ok(c) => children.push((i, c, Instant::now())),
            Err(e) => incon.push(format!("cannot start fuzz worker: {}", e)),
        }
    }
    for (i, mut c, started) in children {
        loop {
            match c.try_wait() {
                Ok(Some(_)) => break,
                Ok(None) => {
                    if started.elapsed() > Duration::from_secs(job.timeout_s + 300) {
                        let _ = c.kill();
                        let _ = c.wait();
                        incon.push(format!("fuzz worker {} timed out", i));
                        break;
                    }
                    std::thread::sleep(Duration::from_millis(50));
                },
                Err(_) => break,
            }
        }
    }
    // executions from the logs, coverage classes from the targets' own counters
    let mut execs = 0u64;
    for i in 0..job.workers {
        if let Ok(t) = std::fs::read_to_string(work.join(format!("fuzz-{}.log", i))) {
            for l in t.lines() {
                if let Some(n) = l.strip_prefix("stat::number_of_executed_units:") {
                    execs += n.trim().parse::<u64>().unwrap_or(0);
                }
            }
        }
    }
    if let Ok(rd) = std::fs::read_dir(&work) {
        for e in rd.flatten() {
            if e.file_name().to_string_lossy().starts_with("stats.") {
                if let Some(v) = std::fs::read_to_string(e.path()).ok().and_then(|t| serde_json::from_str::<Value>(&t).ok()) {
                    acc.merge(&Accum::from_json(&v));
                }
            }
        }
    }
    acc.cases = acc.cases.max(execs);
    acc.samples.truncate(2);
    // artifacts: every saved crashing input becomes a replay file
    if let Ok(rd) = std::fs::read_dir(&art) {
        for e in rd.flatten() {
            let name = e.file_name().to_string_lossy().to_string();
            if !(name.contains("crash-") || name.contains("oom-") || name.contains("timeout-")) {
                continue;
            }
            let bytes = std::fs::read(e.path()).unwrap_or_default();
            if name.contains("timeout-") || name.contains("oom-") {
                incon.push(format!("libFuzzer reported {} (not a verdict)", name));
                continue;
            }
            if job.engine == "fuzz_cache" {
                let case = Case::from_bytes(&bytes);
                let out = run_case(&case, Some(prop), true);
                match judge(&out.fails, prop, known) {
                    Verdict::Violation(f) => acc.violations.push(Violation {
                        replay_text: replay_text(prop, &case, Some(&f), &out.trace), msg: f.msg.clone(), sig: f.sig.clone() }),
                    _ => {
                        let text = case.to_text();
                        if crash_relevant(prop, &text) {
                            crashes.push((format!("# replay for property {}\n# found by libFuzzer under AddressSanitizer ({}); the failure does not show in the plain build\n{}", prop, name, text), "crash:fuzz_cache".into()));
                        }
                        else {
                            *acc.foreign.entry("fuzz-crash".into()).or_insert(0) += 1;
                        }
                    },
                }
            }
            else if bytes.len() >= 2 {
                let menu = lruverif::shapes::menu();
                let idx = (bytes[0] as usize | (bytes[1] as usize) << 8) % menu.len();
                let text = engines::mem_case_text(&menu[idx].name(), &bytes[2..]);
                acc.violations.push(Violation { replay_text: format!("# replay for property {}\n# found by libFuzzer ({})\n{}", prop, name, text),
                    msg: format!("fuzz_memsize crash {}", name), sig: format!("fuzz:{}", menu[idx].name()) });
            }
        }
    }
    (acc, incon, crashes)
}

fn orchestrate(args: &[String]) -> i32 {
    let started = Instant::now();
    let prop = match args.first().and_then(|p| static_prop(p)) {
        Some(p) => p,
        None => { eprintln!("run: unknown property"); return 2; }
    };
    let tier = arg_value(args, "--tier").or_else(|| std::env::var("VERIF_TIER").ok()).unwrap_or_else(|| "quick".into());
    let thorough = tier == "thorough";
    let seed: u64 = arg_value(args, "--seed").or_else(|| std::env::var("VERIF_SEED").ok())
        .and_then(|s| s.parse().ok()).unwrap_or(20260901);
    let root = root();
    let tmp = root.join("harness/target/run").join(format!("{}-{}", prop, std::process::id()));
    let _ = std::fs::remove_dir_all(&tmp);
    if std::fs::create_dir_all(&tmp).is_err() {
        eprintln!("run: cannot create {}", tmp.display());
        return 2;
    }
    let known = load_known(&root);
    let mut total = Accum::default();
    let mut per_engine: BTreeMap<String, Value> = BTreeMap::new();
    let mut inconclusive: Vec<String> = Vec::new();
    let mut crash_violations: Vec<(String, String)> = Vec::new();

    for (jn, job) in jobs_for(prop, thorough).iter().enumerate() {
        if job.build == "fuzz" {
            let (acc, incon, crashes) = run_fuzz_job(prop, job, seed, &tmp, &root, &known);
            per_engine.insert(format!("{}+libfuzzer+asan", job.engine), json!({
                "workers": job.workers, "executions": acc.cases, "steps": acc.steps, "distinct_nontrivial": acc.nt.len(),
            }));
            total.merge(&acc);
            inconclusive.extend(incon);
            crash_violations.extend(crashes);
            continue;
        }
        let bin = bin_path(job.asan, job.build);
        if !bin.exists() {
            inconclusive.push(format!("binary {} missing (engine {}{})", bin.display(), job.engine, if job.asan { " under ASan" } else { "" }));
            continue;
        }
        let mut running: Vec<Running> = Vec::new();
        for index in 0..job.workers {
            let out = tmp.join(format!("job{}-w{}.json", jn, index));
            let mut cmd = Command::new(&bin);
            cmd.arg("worker").arg(prop).arg(job.engine)
                .arg("--seed").arg(seed.to_string())
                .arg("--index").arg(index.to_string())
                .arg("--nworkers").arg(job.workers.to_string())
                .arg("--cases").arg(job.cases.to_string())
                .arg("--out").arg(&out)
                .stdout(Stdio::null());
            if thorough { cmd.arg("--thorough"); }
            let errf = std::fs::File::create(tmp.join(format!("job{}-w{}.stderr", jn, index))).ok();
            match errf { Some(f) => { cmd.stderr(Stdio::from(f)); }, None => { cmd.stderr(Stdio::null()); } }
            if job.asan {
                cmd.env("ASAN_OPTIONS", "detect_leaks=0:exitcode=77:abort_on_error=0:allocator_may_return_null=1");
            }
            if job.build == "tsan" {
                cmd.env("TSAN_OPTIONS", "halt_on_error=1:exitcode=66:report_signal_unsafe=0");
            }
            match cmd.spawn() {
                Ok(child) => running.push(Running { child, out, index, started: Instant::now() }),
                Err(e) => inconclusive.push(format!("cannot start worker: {}", e)),
            }
        }
        let mut job_acc = Accum::default();
        for mut r in running {
            let status = loop {
                match r.child.try_wait() {
                    Ok(Some(s)) => break Some(s),
                    Ok(None) => {
                        if r.started.elapsed() > Duration::from_secs(job.timeout_s) {
                            let _ = r.child.kill();
                            let _ = r.child.wait();
                            break None;
                        }
                        std::thread::sleep(Duration::from_millis(20));
                    },
                    Err(_) => break None,
                }
            };
            match status {
                None => inconclusive.push(format!("worker {} of engine {} timed out after {} s", r.index, job.engine, job.timeout_s)),
                Some(s) if s.success() => {
                    match std::fs::read_to_string(&r.out).ok().and_then(|t| serde_json::from_str::<Value>(&t).ok()) {
                        Some(v) => job_acc.merge(&Accum::from_json(&v)),
                        None => inconclusive.push(format!("worker {} wrote no result", r.index)),
                    }
                },
                Some(s) => {
                    let code = s.code();
                    let cur = std::fs::read_to_string(current_file(&r.out)).unwrap_or_default();
                    let stderr_tail = std::fs::read_to_string(tmp.join(format!("job{}-w{}.stderr", jn, r.index)))
                        .map(|t| {
                            let lines: Vec<&str> = t.lines().collect();
                            // the head of a sanitizer report says what happened; otherwise the tail
                            match lines.iter().position(|l| l.contains("Sanitizer")) {
                                Some(i) => lines[i..lines.len().min(i + 24)].join("\n"),
                                None => lines[lines.len().saturating_sub(12)..].join("\n"),
                            }
                        }).unwrap_or_default();
                    if code == Some(101) || code == Some(2) || cur.is_empty() {
                        inconclusive.push(format!("worker {} of engine {} failed with status {:?}: {}", r.index, job.engine, code, stderr_tail));
                    }
                    else if crash_relevant(prop, &cur) {
                        // the process died while running this case: minimise and report
                        job_acc.crashed += 1;
                        let file = tmp.join(format!("crash-{}-{}.case", jn, r.index));
                        let _ = std::fs::write(&file, &cur);
                        let mut text = cur.clone();
                        if crashes(&bin, job.asan, prop, &file) {
                            if let Ok(case) = Case::from_text(&cur) {
                                let min = ddmin_ops(&case, |c| {
                                    let _ = std::fs::write(&file, c.to_text());
                                    crashes(&bin, job.asan, prop, &file)
                                }, 120);
                                text = min.to_text();
                            }
                            let what = format!("process died (status {:?}{}) while running this case; last lines of stderr:\n{}",
                                code, if job.asan { ", AddressSanitizer build" } else { "" }, stderr_tail);
                            let body = format!("# replay for property {}\n# {}\n{}", prop, what.replace('\n', "\n# "), text);
                            crash_violations.push((body, format!("crash:{}", job.engine)));
                        }
                        else {
                            inconclusive.push(format!("worker {} died with status {:?} but the case does not crash on its own", r.index, code));
                        }
                    }
                    else {
                        job_acc.crashed += 1;
                        *job_acc.foreign.entry("process-crash".into()).or_insert(0) += 1;
                    }
                },
            }
        }
        per_engine.insert(format!("{}{}{}", job.engine, if job.asan { "+asan" } else { "" },
            if job.build.is_empty() { String::new() } else { format!("+{}", job.build) }), json!({
            "workers": job.workers, "cases": job_acc.cases, "steps": job_acc.steps,
            "distinct_nontrivial": job_acc.nt.len(), "exhaustive": job_acc.exhaustive,
        }));
        let ex = job_acc.exhaustive;
        total.merge(&job_acc);
        if (job.engine == "walks" || job.engine == "walks-forget") && !job.asan {
            total.exhaustive = ex;
        }
    }

    // ---- report
    let findings_dir = root.join("findings").join(prop);
    let _ = std::fs::create_dir_all(&findings_dir);
    let mut violation_lines = Vec::new();
    let mut n = 0;
    let mut seen_sigs = Vec::new();
    for v in &total.violations {
        if seen_sigs.contains(&v.sig) { continue; }
        seen_sigs.push(v.sig.clone());
        n += 1;
        let path = findings_dir.join(format!("{}-seed{}-{}.case", tier, seed, n));
        let _ = std::fs::write(&path, &v.replay_text);
        violation_lines.push(format!("VIOLATION property={} replay={}", prop, path.display()));
        eprintln!("violation: [{}] {}", v.sig, v.msg);
    }
    let mut crash_sigs: Vec<String> = Vec::new();
    for (body, sig) in &crash_violations {
        if crash_sigs.contains(sig) {
            continue;
        }
        crash_sigs.push(sig.clone());
        if is_known(&known, prop, sig).is_some() {
            *total.known.entry(sig.clone()).or_insert(0) += 1;
            continue;
        }
        n += 1;
        let path = findings_dir.join(format!("{}-seed{}-{}.case", tier, seed, n));
        let _ = std::fs::write(&path, body);
        violation_lines.push(format!("VIOLATION property={} replay={}", prop, path.display()));
    }
    for (sig, count) in &total.known {
        let desc = is_known(&known, prop, sig).map(|k| k.description.clone()).unwrap_or_default();
        println!("KNOWN-FINDING: property={} signature={} occurrences={} {}", prop, sig, count, desc);
    }
    if total.samples.is_empty() {
        for v in &total.violations {
            total.samples.push(v.replay_text.chars().take(600).collect());
        }
        for (b, _) in &crash_violations {
            total.samples.push(b.chars().take(600).collect());
        }
    }
    let wall = started.elapsed().as_secs_f64();
    let nt = total.nt.len();
    let evidence = json!({
        "property_id": prop,
        "tier": if thorough { "thorough" } else { "quick" },
        "seed": seed,
        "level": level_of(prop),
        "coverage": {
            "evaluations": total.cases,
            "judged_steps": total.steps,
            "distinct_nontrivial": nt,
            "nontrivial_cases": total.nt_cases,
            "rule": rule_of(prop),
            "samples": total.samples,
            "exhaustive": total.exhaustive,
            "engines": per_engine,
            "class_histogram": total.events,
            "foreign_alarms": total.foreign,
            "known_findings_matched": total.known,
            "skipped_ops": total.skipped,
            "process_crashes": total.crashed,
            "nontrivial_signatures_sample": total.nt.iter().take(40).collect::<Vec<_>>(),
        },
        "assumptions": [
            "size estimates are at most 2^40 per entry, or of the limit's own magnitude when max_size exceeds 2^61; every sum of estimates the cache has to represent fits a usize",
            "destructor panics and re-entrant user code are injected only inside cache operations; after a destructor panic leaks are tolerated, as C16 tolerates them for the callbacks it lists",
            "reserve is only called with arguments for which its documentation does not promise a panic",
            "the reference model (harness/src/model.rs) and the tagged oracles (harness/src/steps.rs, exec.rs, exec2.rs) state the property correctly",
            "hooks (feature verif-hooks) are read-only and report the true link structure",
        ],
        "wall_s": wall,
        "violations": violation_lines.len(),
        "inconclusive": inconclusive,
        "notes": total.notes,
    });
    let ev_dir = root.join("evidence");
    let _ = std::fs::create_dir_all(&ev_dir);
    let _ = std::fs::write(ev_dir.join(format!("{}.json", prop)), serde_json::to_string_pretty(&evidence).unwrap());
    let _ = std::fs::remove_dir_all(&tmp);

    println!("{} {}: {} cases, {} judged steps, {} distinct non-trivial, {} foreign, {:.1} s",
        prop, tier, total.cases, total.steps, nt, total.foreign.values().sum::<u64>(), wall);
    for l in &violation_lines {
        println!("{}", l);
    }
    if !violation_lines.is_empty() {
        return 1;
    }
    for n in &total.notes {
        if n.starts_with("INCONCLUSIVE") {
            inconclusive.push(n.clone());
        }
    }
    if !inconclusive.is_empty() {
        for i in &inconclusive {
            eprintln!("inconclusive: {}", i);
        }
        return 2;
    }
    if total.cases == 0 || nt < 2 {
        eprintln!("inconclusive: generator health: {} cases, {} distinct non-trivial", total.cases, nt);
        return 2;
    }
    0
}
