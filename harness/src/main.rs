fn main() { lruverif::hello(); }
