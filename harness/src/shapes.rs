//! MemSize type menu for C08 / C09: concrete nestings of the supported
//! constructors, each with a generator (`build`, driven by bytes through
//! `arbitrary::Unstructured`, using build *scripts* so that every relation of
//! length and capacity occurs) and the slow, element-wise structural
//! reference `ref_heap`.

use std::collections::{BinaryHeap, HashMap, HashSet};
use std::ffi::{CStr, CString, OsString};
use std::hash::Hash;
use std::marker::PhantomData;
use std::num::Wrapping;
use std::ops::{Range, RangeFrom, RangeFull, RangeInclusive, RangeTo, RangeToInclusive};
use std::path::{Path, PathBuf};
use std::sync::{Mutex, RwLock};

use arbitrary::Unstructured;
use lru_mem::{HeapSize, MemSize, ValueSize};

pub fn int(u: &mut Unstructured, lo: usize, hi: usize) -> usize {
    u.int_in_range(lo..=hi).unwrap_or(lo)
}

fn flag(u: &mut Unstructured) -> bool {
    u.arbitrary::<bool>().unwrap_or(false)
}

/// Element counts shrink with nesting depth so that values stay small.
fn max_count(depth: u32) -> usize {
    match depth { 0 => 9, 1 => 5, 2 => 3, _ => 2 }
}

pub trait Shape: Sized + MemSize {
    /// heap_size must equal the allocator's count (no hash containers, no
    /// leaked referents inside)
    const EXACT: bool;
    /// contains a user-defined type whose reported heap size is not backed by
    /// the allocator: the allocator comparison does not apply (C08 only)
    const VIRTUAL: bool = false;
    /// nesting levels of constructors
    const LEVELS: u32;
    fn build(u: &mut Unstructured, depth: u32) -> Self;
    /// element-wise, non-bulk structural definition of the heap size
    fn ref_heap(&self) -> usize;
    /// some level holds capacity beyond its length
    fn slack(&self) -> bool;
    fn name() -> String;
}

macro_rules! leaf {
    ($t:ty, $name:expr, |$u:ident| $build:expr) => {
        impl Shape for $t {
            const EXACT: bool = true;
            const LEVELS: u32 = 0;
            fn build($u: &mut Unstructured, _depth: u32) -> Self { $build }
            fn ref_heap(&self) -> usize { 0 }
            fn slack(&self) -> bool { false }
            fn name() -> String { $name.to_string() }
        }
    };
}

leaf!(u8, "u8", |u| u.arbitrary().unwrap_or(0));
leaf!(u16, "u16", |u| u.arbitrary().unwrap_or(0));
leaf!(u32, "u32", |u| u.arbitrary().unwrap_or(0));
leaf!(u64, "u64", |u| u.arbitrary().unwrap_or(0));
leaf!(i128, "i128", |u| u.arbitrary().unwrap_or(0));
leaf!((), "()", |_u| ());
leaf!(char, "char", |u| u.arbitrary().unwrap_or('x'));
leaf!(bool, "bool", |u| u.arbitrary().unwrap_or(false));
leaf!(f64, "f64", |u| int(u, 0, 1000) as f64);
leaf!(std::time::Duration, "Duration", |u| std::time::Duration::from_millis(int(u, 0, 1000) as u64));
leaf!(RangeFull, "RangeFull", |_u| ..);
leaf!(i8, "i8", |u| u.arbitrary().unwrap_or(0));
leaf!(u128, "u128", |u| u.arbitrary().unwrap_or(0));
leaf!(usize, "usize", |u| u.arbitrary().unwrap_or(0));
leaf!(f32, "f32", |u| int(u, 0, 1000) as f32);
leaf!(std::num::NonZeroU8, "NonZeroU8", |u| std::num::NonZeroU8::new(1 + int(u, 0, 200) as u8).unwrap());
leaf!(std::num::NonZeroU64, "NonZeroU64", |u| std::num::NonZeroU64::new(1 + int(u, 0, 200) as u64).unwrap());
leaf!(std::cmp::Ordering, "Ordering", |u| if flag(u) { std::cmp::Ordering::Less } else { std::cmp::Ordering::Greater });
leaf!(std::net::Ipv4Addr, "Ipv4Addr", |u| std::net::Ipv4Addr::new(int(u, 0, 255) as u8, 0, 0, 1));
leaf!(std::net::IpAddr, "IpAddr", |u| if flag(u) { std::net::IpAddr::V4(std::net::Ipv4Addr::new(int(u, 0, 255) as u8, 0, 0, 1)) } else { std::net::IpAddr::V6(std::net::Ipv6Addr::LOCALHOST) });
leaf!(std::net::SocketAddr, "SocketAddr", |u| std::net::SocketAddr::new(std::net::IpAddr::V6(std::net::Ipv6Addr::LOCALHOST), int(u, 0, 6000) as u16));
leaf!(std::marker::PhantomPinned, "PhantomPinned", |_u| std::marker::PhantomPinned);
leaf!(std::collections::hash_map::RandomState, "RandomState", |_u| std::collections::hash_map::RandomState::new());

fn text(u: &mut Unstructured, n: usize) -> String {
    (0..n).map(|_| (b'a' + (int(u, 0, 25) as u8)) as char).collect()
}

impl Shape for String {
    const EXACT: bool = true;
    const LEVELS: u32 = 1;
    fn build(u: &mut Unstructured, depth: u32) -> Self {
        let m = max_count(depth) * 3;
        let mut s = if flag(u) { String::with_capacity(int(u, 0, 40)) } else { String::new() };
        for _ in 0..int(u, 0, 5) {
            match int(u, 0, 8) {
                0 | 1 => { let n = int(u, 0, m); s.push_str(&text(u, n)); },
                2 => s.reserve(int(u, 0, 30)),
                3 => s.reserve_exact(int(u, 0, 30)),
                4 => s.shrink_to(int(u, 0, 30)),
                5 => s.shrink_to_fit(),
                6 => { let t = int(u, 0, s.len()); s.truncate(t); },
                7 => { s.pop(); },
                _ => s.clear(),
            }
        }
        s
    }
    fn ref_heap(&self) -> usize { self.capacity() }
    fn slack(&self) -> bool { self.capacity() > self.len() }
    fn name() -> String { "String".into() }
}

impl<T: Shape> Shape for Vec<T> {
    const EXACT: bool = T::EXACT;
    const VIRTUAL: bool = T::VIRTUAL;
    const LEVELS: u32 = T::LEVELS + 1;
    fn build(u: &mut Unstructured, depth: u32) -> Self {
        let m = max_count(depth);
        let mut v: Vec<T> = if flag(u) { Vec::with_capacity(int(u, 0, 20)) } else { Vec::new() };
        for _ in 0..int(u, 0, 6) {
            match int(u, 0, 9) {
                0 | 1 => v.push(T::build(u, depth + 1)),
                2 => { let n = int(u, 0, m); let more: Vec<T> = (0..n).map(|_| T::build(u, depth + 1)).collect(); v.extend(more); },
                3 => v.reserve(int(u, 0, 20)),
                4 => v.reserve_exact(int(u, 0, 20)),
                5 => v.shrink_to(int(u, 0, 20)),
                6 => v.shrink_to_fit(),
                7 => { let t = int(u, 0, v.len()); v.truncate(t); },
                8 => { v.pop(); },
                _ => v.clear(),
            }
        }
        let m2 = max_count(depth) * 2;
        if v.len() > m2 { v.truncate(m2); }
        v
    }
    fn ref_heap(&self) -> usize {
        self.capacity() * std::mem::size_of::<T>() + self.iter().map(|e| e.ref_heap()).sum::<usize>()
    }
    fn slack(&self) -> bool {
        (std::mem::size_of::<T>() > 0 && self.capacity() > self.len()) || self.iter().any(|e| e.slack())
    }
    fn name() -> String { format!("Vec<{}>", T::name()) }
}

impl<T: Shape> Shape for Box<T> {
    const EXACT: bool = T::EXACT;
    const VIRTUAL: bool = T::VIRTUAL;
    const LEVELS: u32 = T::LEVELS + 1;
    fn build(u: &mut Unstructured, depth: u32) -> Self { Box::new(T::build(u, depth + 1)) }
    fn ref_heap(&self) -> usize { std::mem::size_of::<T>() + (**self).ref_heap() }
    fn slack(&self) -> bool { (**self).slack() }
    fn name() -> String { format!("Box<{}>", T::name()) }
}

impl<T: Shape> Shape for Box<[T]> {
    const EXACT: bool = T::EXACT;
    const VIRTUAL: bool = T::VIRTUAL;
    const LEVELS: u32 = T::LEVELS + 1;
    fn build(u: &mut Unstructured, depth: u32) -> Self {
        let n = int(u, 0, max_count(depth));
        (0..n).map(|_| T::build(u, depth + 1)).collect::<Vec<T>>().into_boxed_slice()
    }
    fn ref_heap(&self) -> usize {
        self.len() * std::mem::size_of::<T>() + self.iter().map(|e| e.ref_heap()).sum::<usize>()
    }
    fn slack(&self) -> bool { self.iter().any(|e| e.slack()) }
    fn name() -> String { format!("Box<[{}]>", T::name()) }
}

impl Shape for Box<str> {
    const EXACT: bool = true;
    const LEVELS: u32 = 1;
    fn build(u: &mut Unstructured, depth: u32) -> Self { String::build(u, depth).into_boxed_str() }
    fn ref_heap(&self) -> usize { self.len() }
    fn slack(&self) -> bool { false }
    fn name() -> String { "Box<str>".into() }
}

impl Shape for Box<CStr> {
    const EXACT: bool = true;
    const LEVELS: u32 = 1;
    fn build(u: &mut Unstructured, depth: u32) -> Self { CString::build(u, depth).into_boxed_c_str() }
    fn ref_heap(&self) -> usize { self.to_bytes_with_nul().len() }
    fn slack(&self) -> bool { false }
    fn name() -> String { "Box<CStr>".into() }
}

impl Shape for Box<Path> {
    const EXACT: bool = true;
    const LEVELS: u32 = 1;
    fn build(u: &mut Unstructured, depth: u32) -> Self { PathBuf::build(u, depth).into_boxed_path() }
    fn ref_heap(&self) -> usize { self.as_os_str().len() }
    fn slack(&self) -> bool { false }
    fn name() -> String { "Box<Path>".into() }
}

impl Shape for Box<std::ffi::OsStr> {
    const EXACT: bool = true;
    const LEVELS: u32 = 1;
    fn build(u: &mut Unstructured, depth: u32) -> Self { OsString::build(u, depth).into_boxed_os_str() }
    fn ref_heap(&self) -> usize { self.len() }
    fn slack(&self) -> bool { false }
    fn name() -> String { "Box<OsStr>".into() }
}

impl<T: 'static> Shape for PhantomData<T> {
    const EXACT: bool = true;
    const LEVELS: u32 = 0;
    fn build(_u: &mut Unstructured, _depth: u32) -> Self { PhantomData }
    fn ref_heap(&self) -> usize { 0 }
    fn slack(&self) -> bool { false }
    fn name() -> String { "PhantomData<_>".into() }
}

impl Shape for CString {
    const EXACT: bool = true;
    const LEVELS: u32 = 1;
    fn build(u: &mut Unstructured, depth: u32) -> Self {
        let n = int(u, 0, max_count(depth) * 3);
        let mut bytes: Vec<u8> = Vec::with_capacity(int(u, 0, 30));
        for _ in 0..n { bytes.push(1 + int(u, 0, 200) as u8); }
        CString::new(bytes).expect("no interior nul")
    }
    fn ref_heap(&self) -> usize { self.as_bytes_with_nul().len() }
    fn slack(&self) -> bool { false }
    fn name() -> String { "CString".into() }
}

impl Shape for OsString {
    const EXACT: bool = true;
    const LEVELS: u32 = 1;
    fn build(u: &mut Unstructured, depth: u32) -> Self {
        let m = max_count(depth) * 3;
        let mut s = if flag(u) { OsString::with_capacity(int(u, 0, 40)) } else { OsString::new() };
        for _ in 0..int(u, 0, 5) {
            match int(u, 0, 6) {
                0 | 1 => { let n = int(u, 0, m); s.push(text(u, n)); },
                2 => s.reserve(int(u, 0, 30)),
                3 => s.reserve_exact(int(u, 0, 30)),
                4 => s.shrink_to(int(u, 0, 30)),
                5 => s.shrink_to_fit(),
                _ => s.clear(),
            }
        }
        s
    }
    fn ref_heap(&self) -> usize { self.capacity() }
    fn slack(&self) -> bool { self.capacity() > self.len() }
    fn name() -> String { "OsString".into() }
}

impl Shape for PathBuf {
    const EXACT: bool = true;
    const LEVELS: u32 = 1;
    fn build(u: &mut Unstructured, depth: u32) -> Self {
        let m = max_count(depth) * 2;
        let mut p = if flag(u) { PathBuf::with_capacity(int(u, 0, 60)) } else { PathBuf::new() };
        for _ in 0..int(u, 0, 6) {
            match int(u, 0, 7) {
                0 | 1 | 2 => { let n = int(u, 1, m); p.push(text(u, n)); },
                3 => { p.pop(); },
                4 => p.reserve(int(u, 0, 40)),
                5 => p.reserve_exact(int(u, 0, 40)),
                6 => p.shrink_to(int(u, 0, 40)),
                _ => p.shrink_to_fit(),
            }
        }
        p
    }
    fn ref_heap(&self) -> usize { self.capacity() }
    fn slack(&self) -> bool { self.capacity() > self.as_os_str().len() }
    fn name() -> String { "PathBuf".into() }
}

impl<T: Shape> Shape for Option<T> {
    const EXACT: bool = T::EXACT;
    const VIRTUAL: bool = T::VIRTUAL;
    const LEVELS: u32 = T::LEVELS + 1;
    fn build(u: &mut Unstructured, depth: u32) -> Self {
        if int(u, 0, 3) == 0 { None } else { Some(T::build(u, depth + 1)) }
    }
    fn ref_heap(&self) -> usize { self.as_ref().map(|v| v.ref_heap()).unwrap_or(0) }
    fn slack(&self) -> bool { self.as_ref().map(|v| v.slack()).unwrap_or(false) }
    fn name() -> String { format!("Option<{}>", T::name()) }
}

impl<T: Shape, E: Shape> Shape for Result<T, E> {
    const EXACT: bool = T::EXACT && E::EXACT;
    const VIRTUAL: bool = T::VIRTUAL || E::VIRTUAL;
    const LEVELS: u32 = (if T::LEVELS > E::LEVELS { T::LEVELS } else { E::LEVELS }) + 1;
    fn build(u: &mut Unstructured, depth: u32) -> Self {
        if flag(u) { Ok(T::build(u, depth + 1)) } else { Err(E::build(u, depth + 1)) }
    }
    fn ref_heap(&self) -> usize {
        match self { Ok(v) => v.ref_heap(), Err(e) => e.ref_heap() }
    }
    fn slack(&self) -> bool {
        match self { Ok(v) => v.slack(), Err(e) => e.slack() }
    }
    fn name() -> String { format!("Result<{}, {}>", T::name(), E::name()) }
}

impl<T: Shape, const N: usize> Shape for [T; N] {
    const EXACT: bool = T::EXACT;
    const VIRTUAL: bool = T::VIRTUAL;
    const LEVELS: u32 = T::LEVELS + 1;
    fn build(u: &mut Unstructured, depth: u32) -> Self { std::array::from_fn(|_| T::build(u, depth + 1)) }
    fn ref_heap(&self) -> usize { self.iter().map(|e| e.ref_heap()).sum() }
    fn slack(&self) -> bool { self.iter().any(|e| e.slack()) }
    fn name() -> String { format!("[{}; {}]", T::name(), N) }
}

macro_rules! tuple_shape {
    ($($t:ident),+) => {
        impl<$($t: Shape),+> Shape for ($($t,)+) {
            const EXACT: bool = true $(&& $t::EXACT)+;
            const VIRTUAL: bool = false $(|| $t::VIRTUAL)+;
            const LEVELS: u32 = { let mut m = 0; $(if $t::LEVELS > m { m = $t::LEVELS; })+ m + 1 };
            fn build(u: &mut Unstructured, depth: u32) -> Self { ($($t::build(u, depth + 1),)+) }
            #[allow(non_snake_case)]
            fn ref_heap(&self) -> usize { let ($($t,)+) = self; 0 $(+ $t.ref_heap())+ }
            #[allow(non_snake_case)]
            fn slack(&self) -> bool { let ($($t,)+) = self; false $(|| $t.slack())+ }
            fn name() -> String { format!("({})", vec![$($t::name()),+].join(", ")) }
        }
    };
}

tuple_shape!(A);
tuple_shape!(A, B);
tuple_shape!(A, B, C);
tuple_shape!(A, B, C, D);
tuple_shape!(A, B, C, D, E);
tuple_shape!(A, B, C, D, E, F);
tuple_shape!(A, B, C, D, E, F, G);
tuple_shape!(A, B, C, D, E, F, G, H);
tuple_shape!(A, B, C, D, E, F, G, H, I);
tuple_shape!(A, B, C, D, E, F, G, H, I, J);

impl<K: Shape + Hash + Eq, V: Shape> Shape for HashMap<K, V> {
    const EXACT: bool = false;
    const VIRTUAL: bool = K::VIRTUAL || V::VIRTUAL;
    const LEVELS: u32 = (if K::LEVELS > V::LEVELS { K::LEVELS } else { V::LEVELS }) + 1;
    fn build(u: &mut Unstructured, depth: u32) -> Self {
        let mut m: HashMap<K, V> = if flag(u) { HashMap::with_capacity(int(u, 0, 20)) } else { HashMap::new() };
        for _ in 0..int(u, 0, 6) {
            match int(u, 0, 6) {
                0 | 1 | 2 => { m.insert(K::build(u, depth + 1), V::build(u, depth + 1)); },
                3 => m.reserve(int(u, 0, 20)),
                4 => m.shrink_to_fit(),
                5 => { let mut it = 0; m.retain(|_, _| { it += 1; it != 1 }); },
                _ => m.clear(),
            }
        }
        m
    }
    fn ref_heap(&self) -> usize {
        self.capacity() * std::mem::size_of::<(K, V)>()
            + self.iter().map(|(k, v)| k.ref_heap() + v.ref_heap()).sum::<usize>()
    }
    fn slack(&self) -> bool { self.capacity() > self.len() }
    fn name() -> String { format!("HashMap<{}, {}>", K::name(), V::name()) }
}

impl<T: Shape + Hash + Eq> Shape for HashSet<T> {
    const EXACT: bool = false;
    const VIRTUAL: bool = T::VIRTUAL;
    const LEVELS: u32 = T::LEVELS + 1;
    fn build(u: &mut Unstructured, depth: u32) -> Self {
        let mut m: HashSet<T> = if flag(u) { HashSet::with_capacity(int(u, 0, 20)) } else { HashSet::new() };
        for _ in 0..int(u, 0, 6) {
            match int(u, 0, 5) {
                0 | 1 | 2 => { m.insert(T::build(u, depth + 1)); },
                3 => m.reserve(int(u, 0, 20)),
                4 => m.shrink_to_fit(),
                _ => m.clear(),
            }
        }
        m
    }
    fn ref_heap(&self) -> usize {
        self.capacity() * std::mem::size_of::<T>() + self.iter().map(|e| e.ref_heap()).sum::<usize>()
    }
    fn slack(&self) -> bool { self.capacity() > self.len() }
    fn name() -> String { format!("HashSet<{}>", T::name()) }
}

impl<T: Shape + Ord> Shape for BinaryHeap<T> {
    const EXACT: bool = T::EXACT;
    const VIRTUAL: bool = T::VIRTUAL;
    const LEVELS: u32 = T::LEVELS + 1;
    fn build(u: &mut Unstructured, depth: u32) -> Self {
        let mut h: BinaryHeap<T> = if flag(u) { BinaryHeap::with_capacity(int(u, 0, 20)) } else { BinaryHeap::new() };
        for _ in 0..int(u, 0, 6) {
            match int(u, 0, 7) {
                0 | 1 | 2 => h.push(T::build(u, depth + 1)),
                3 => { h.pop(); },
                4 => h.reserve(int(u, 0, 20)),
                5 => h.reserve_exact(int(u, 0, 20)),
                6 => h.shrink_to_fit(),
                _ => h.clear(),
            }
        }
        h
    }
    fn ref_heap(&self) -> usize {
        self.capacity() * std::mem::size_of::<T>() + self.iter().map(|e| e.ref_heap()).sum::<usize>()
    }
    fn slack(&self) -> bool { self.capacity() > self.len() || self.iter().any(|e| e.slack()) }
    fn name() -> String { format!("BinaryHeap<{}>", T::name()) }
}

impl<T: Shape> Shape for Wrapping<T> {
    const EXACT: bool = T::EXACT;
    const VIRTUAL: bool = T::VIRTUAL;
    const LEVELS: u32 = T::LEVELS + 1;
    fn build(u: &mut Unstructured, depth: u32) -> Self { Wrapping(T::build(u, depth + 1)) }
    fn ref_heap(&self) -> usize { self.0.ref_heap() }
    fn slack(&self) -> bool { self.0.slack() }
    fn name() -> String { format!("Wrapping<{}>", T::name()) }
}

impl<T: Shape> Shape for Range<T> {
    const EXACT: bool = T::EXACT;
    const VIRTUAL: bool = T::VIRTUAL;
    const LEVELS: u32 = T::LEVELS + 1;
    fn build(u: &mut Unstructured, depth: u32) -> Self { T::build(u, depth + 1)..T::build(u, depth + 1) }
    fn ref_heap(&self) -> usize { self.start.ref_heap() + self.end.ref_heap() }
    fn slack(&self) -> bool { self.start.slack() || self.end.slack() }
    fn name() -> String { format!("Range<{}>", T::name()) }
}

impl<T: Shape> Shape for RangeInclusive<T> {
    const EXACT: bool = T::EXACT;
    const VIRTUAL: bool = T::VIRTUAL;
    const LEVELS: u32 = T::LEVELS + 1;
    fn build(u: &mut Unstructured, depth: u32) -> Self { T::build(u, depth + 1)..=T::build(u, depth + 1) }
    fn ref_heap(&self) -> usize { self.start().ref_heap() + self.end().ref_heap() }
    fn slack(&self) -> bool { self.start().slack() || self.end().slack() }
    fn name() -> String { format!("RangeInclusive<{}>", T::name()) }
}

impl<T: Shape> Shape for RangeFrom<T> {
    const EXACT: bool = T::EXACT;
    const VIRTUAL: bool = T::VIRTUAL;
    const LEVELS: u32 = T::LEVELS + 1;
    fn build(u: &mut Unstructured, depth: u32) -> Self { T::build(u, depth + 1).. }
    fn ref_heap(&self) -> usize { self.start.ref_heap() }
    fn slack(&self) -> bool { self.start.slack() }
    fn name() -> String { format!("RangeFrom<{}>", T::name()) }
}

impl<T: Shape> Shape for RangeTo<T> {
    const EXACT: bool = T::EXACT;
    const VIRTUAL: bool = T::VIRTUAL;
    const LEVELS: u32 = T::LEVELS + 1;
    fn build(u: &mut Unstructured, depth: u32) -> Self { ..T::build(u, depth + 1) }
    fn ref_heap(&self) -> usize { self.end.ref_heap() }
    fn slack(&self) -> bool { self.end.slack() }
    fn name() -> String { format!("RangeTo<{}>", T::name()) }
}

impl<T: Shape> Shape for RangeToInclusive<T> {
    const EXACT: bool = T::EXACT;
    const VIRTUAL: bool = T::VIRTUAL;
    const LEVELS: u32 = T::LEVELS + 1;
    fn build(u: &mut Unstructured, depth: u32) -> Self { ..=T::build(u, depth + 1) }
    fn ref_heap(&self) -> usize { self.end.ref_heap() }
    fn slack(&self) -> bool { self.end.slack() }
    fn name() -> String { format!("RangeToInclusive<{}>", T::name()) }
}

impl<T: Shape> Shape for Mutex<T> {
    const EXACT: bool = T::EXACT;
    const VIRTUAL: bool = T::VIRTUAL;
    const LEVELS: u32 = T::LEVELS + 1;
    fn build(u: &mut Unstructured, depth: u32) -> Self { Mutex::new(T::build(u, depth + 1)) }
    fn ref_heap(&self) -> usize { self.lock().unwrap().ref_heap() }
    fn slack(&self) -> bool { self.lock().unwrap().slack() }
    fn name() -> String { format!("Mutex<{}>", T::name()) }
}

impl<T: Shape> Shape for RwLock<T> {
    const EXACT: bool = T::EXACT;
    const VIRTUAL: bool = T::VIRTUAL;
    const LEVELS: u32 = T::LEVELS + 1;
    fn build(u: &mut Unstructured, depth: u32) -> Self { RwLock::new(T::build(u, depth + 1)) }
    fn ref_heap(&self) -> usize { self.read().unwrap().ref_heap() }
    fn slack(&self) -> bool { self.read().unwrap().slack() }
    fn name() -> String { format!("RwLock<{}>", T::name()) }
}

/// Borrowed data contributes 0. The referent is leaked on purpose (it is
/// not owned by the value), which makes the allocator comparison one-sided.
impl<T: Shape + 'static> Shape for &'static T {
    const EXACT: bool = false;
    const LEVELS: u32 = 1;
    fn build(u: &mut Unstructured, depth: u32) -> Self { Box::leak(Box::new(T::build(u, depth + 1))) }
    fn ref_heap(&self) -> usize { 0 }
    fn slack(&self) -> bool { false }
    fn name() -> String { format!("&{}", T::name()) }
}

impl<T: Shape + 'static> Shape for &'static mut T {
    const EXACT: bool = false;
    const LEVELS: u32 = 1;
    fn build(u: &mut Unstructured, depth: u32) -> Self { Box::leak(Box::new(T::build(u, depth + 1))) }
    fn ref_heap(&self) -> usize { 0 }
    fn slack(&self) -> bool { false }
    fn name() -> String { format!("&mut {}", T::name()) }
}

// ------------------------------------------------- user-defined element types
//
// The containers of the crate hand *their own* iterators to the bulk helpers
// of the element type, and the element type may be anybody's. These element
// types implement the helpers in legitimate but unusual ways (a `next` before
// a `fold`, `len` / `count`, `peekable`, `last`), and report sizes that the
// allocator knows nothing about (handles into arenas, no drop glue).

/// No drop glue, `Copy`, reports the heap size it is told to.
#[derive(Clone, Copy, Debug, PartialEq, Eq, Hash, PartialOrd, Ord)]
pub struct UMock(pub u32);

impl HeapSize for UMock {
    fn heap_size(&self) -> usize { self.0 as usize }
}

/// Bulk helpers take the first element with `next` and fold the rest.
#[derive(Debug, PartialEq, Eq, Hash, PartialOrd, Ord)]
pub struct UHead(pub u32, pub Box<u8>);

impl HeapSize for UHead {
    fn heap_size(&self) -> usize { self.0 as usize }

    fn heap_size_sum_iter<'item, Fun, Iter>(make_iter: Fun) -> usize
    where Self: 'item, Fun: Fn() -> Iter, Iter: Iterator<Item = &'item Self> {
        let mut it = make_iter();
        let first = match it.next() { Some(x) => x.0 as usize, None => return 0 };
        it.fold(first, |a, x| a + x.0 as usize)
    }

    fn heap_size_sum_exact_size_iter<'item, Fun, Iter>(make_iter: Fun) -> usize
    where Self: 'item, Fun: Fn() -> Iter, Iter: ExactSizeIterator<Item = &'item Self> {
        let mut it = make_iter();
        let first = match it.next() { Some(x) => x.0 as usize, None => return 0 };
        it.fold(first, |a, x| a + x.0 as usize)
    }
}

/// Bulk helpers believe `len()`, cross-check it with `count()`, and walk with `nth`.
#[derive(Debug, Clone, Copy, PartialEq, Eq, Hash, PartialOrd, Ord)]
pub struct ULen(pub u32);

impl HeapSize for ULen {
    fn heap_size(&self) -> usize { self.0 as usize }

    fn heap_size_sum_iter<'item, Fun, Iter>(make_iter: Fun) -> usize
    where Self: 'item, Fun: Fn() -> Iter, Iter: Iterator<Item = &'item Self> {
        let n = make_iter().count();
        let (lo, hi) = make_iter().size_hint();
        // an iterator of the crate that misreports its bounds shows up as a wrong sum
        let penalty = if lo > n || hi.map(|h| h < n).unwrap_or(false) { 1 << 40 } else { 0 };
        let mut it = make_iter();
        let mut sum = 0usize;
        while let Some(x) = it.nth(0) { sum += x.0 as usize; }
        sum + penalty
    }

    fn heap_size_sum_exact_size_iter<'item, Fun, Iter>(make_iter: Fun) -> usize
    where Self: 'item, Fun: Fn() -> Iter, Iter: ExactSizeIterator<Item = &'item Self> {
        let n = make_iter().len();
        let counted = make_iter().count();
        let penalty = if n != counted { 1 << 40 } else { 0 };
        let mut it = make_iter();
        let mut sum = 0usize;
        for _ in 0..n {
            match it.next() { Some(x) => sum += x.0 as usize, None => return sum + (1 << 41) }
        }
        sum + penalty + if it.next().is_some() { 1 << 42 } else { 0 }
    }
}

/// Bulk helpers peek, take the last element separately, skip and step.
#[derive(Debug, PartialEq, Eq, Hash, PartialOrd, Ord)]
pub struct UPeek(pub u32, pub String);

impl HeapSize for UPeek {
    fn heap_size(&self) -> usize { self.0 as usize }

    fn heap_size_sum_iter<'item, Fun, Iter>(make_iter: Fun) -> usize
    where Self: 'item, Fun: Fn() -> Iter, Iter: Iterator<Item = &'item Self> {
        let mut it = make_iter().peekable();
        if it.peek().is_none() { return 0; }
        let last = make_iter().last().map(|x| x.0 as usize).unwrap_or(0);
        let n = make_iter().count();
        let all_but_last: usize = it.take(n - 1).map(|x| x.0 as usize).sum();
        all_but_last + last
    }

    fn heap_size_sum_exact_size_iter<'item, Fun, Iter>(make_iter: Fun) -> usize
    where Self: 'item, Fun: Fn() -> Iter, Iter: ExactSizeIterator<Item = &'item Self> {
        // even and odd positions separately
        let even: usize = make_iter().step_by(2).map(|x| x.0 as usize).sum();
        let odd: usize = make_iter().skip(1).step_by(2).map(|x| x.0 as usize).sum();
        even + odd
    }
}

macro_rules! user_leaf {
    ($t:ty, $name:expr, |$u:ident| $build:expr) => {
        impl Shape for $t {
            const EXACT: bool = false;
            const VIRTUAL: bool = true;
            const LEVELS: u32 = 1;
            fn build($u: &mut Unstructured, _depth: u32) -> Self { $build }
            fn ref_heap(&self) -> usize { self.0 as usize }
            fn slack(&self) -> bool { self.0 > 0 }
            fn name() -> String { $name.to_string() }
        }
    };
}

user_leaf!(UMock, "UMock", |u| UMock(int(u, 0, 1000) as u32));
user_leaf!(UHead, "UHead", |u| UHead(int(u, 0, 1000) as u32, Box::new(0)));
user_leaf!(ULen, "ULen", |u| ULen(int(u, 0, 1000) as u32));
user_leaf!(UPeek, "UPeek", |u| UPeek(int(u, 0, 1000) as u32, String::new()));

// --------------------------------------------------------------- checks

#[derive(Clone, Debug)]
pub struct MemFailure {
    pub tags: Vec<&'static str>,
    pub sig: String,
    pub msg: String,
}

#[derive(Default, Clone, Debug)]
pub struct MemStats {
    pub checks: u64,
    pub nontrivial8: Vec<String>,
    pub nontrivial9: Vec<String>,
    pub discarded: u64,
}

pub trait ShapeRun {
    fn name(&self) -> String;
    fn run(&self, bytes: &[u8], stats: &mut MemStats) -> Vec<MemFailure>;
}

pub struct Runner<T>(pub PhantomData<fn() -> T>);

fn sum_heap<'a, T: HeapSize + 'a>(it: impl Iterator<Item = &'a T>) -> usize {
    it.map(|x| x.heap_size()).sum()
}

fn sum_value<'a, T: ValueSize + 'a>(it: impl Iterator<Item = &'a T>) -> usize {
    it.map(|x| x.value_size()).sum()
}

impl<T: Shape + 'static> ShapeRun for Runner<T> {
    fn name(&self) -> String { T::name() }

    fn run(&self, bytes: &[u8], stats: &mut MemStats) -> Vec<MemFailure> {
        // size estimation is total: a panic anywhere in here is a C08 failure
        let r = std::panic::catch_unwind(std::panic::AssertUnwindSafe(|| {
            let mut local = MemStats::default();
            let fails = self.run_inner(bytes, &mut local);
            (fails, local)
        }));
        match r {
            Ok((fails, local)) => {
                stats.checks += local.checks;
                stats.discarded += local.discarded;
                stats.nontrivial8.extend(local.nontrivial8);
                stats.nontrivial9.extend(local.nontrivial9);
                fails
            },
            Err(p) => vec![MemFailure { tags: vec!["C08", "C09"], sig: format!("panic:{}", T::name()),
                msg: format!("{}: size estimation panicked: {}", T::name(), crate::tracked::panic_message(&*p)) }],
        }
    }
}

impl<T: Shape + 'static> Runner<T> {
    fn run_inner(&self, bytes: &[u8], stats: &mut MemStats) -> Vec<MemFailure> {
        let mut fails = Vec::new();
        let name = T::name();
        let mut u = Unstructured::new(bytes);

        // ---- one value: compositionality (C08 a, b) and the allocator (C09)
        let before = crate::alloc::live();
        // black_box: in optimised builds the compiler may otherwise elide a
        // heap allocation it can see through (Box<u8>), and the allocator
        // would not be the ground truth any more
        let value = std::hint::black_box(T::build(&mut u, 0));
        let held = crate::alloc::live() - before;
        let heap = value.heap_size();
        let vs = value.value_size();
        let ms = value.mem_size();
        let reference = value.ref_heap();
        let slack = value.slack();
        let size_of_val = std::mem::size_of_val(&value);
        drop(value);
        // nothing below has allocated yet: the counter must be back
        let clean = crate::alloc::live() == before;
        stats.checks += 1;
        if ms != vs + heap {
            fails.push(MemFailure { tags: vec!["C08"], sig: format!("mem!=value+heap:{}", name),
                msg: format!("{}: mem_size {} != value_size {} + heap_size {}", name, ms, vs, heap) });
        }
        if vs != size_of_val {
            fails.push(MemFailure { tags: vec!["C08"], sig: format!("value_size:{}", name),
                msg: format!("{}: value_size {} != size_of_val {}", name, vs, size_of_val) });
        }
        if heap != reference {
            fails.push(MemFailure { tags: vec!["C08"], sig: format!("heap!=structural:{}", name),
                msg: format!("{}: heap_size {} but the element-wise structural sum is {}", name, heap, reference) });
        }
        if T::LEVELS >= 2 && slack {
            stats.nontrivial8.push(format!("{}|value", name));
        }
        if crate::alloc_installed() && !T::VIRTUAL {
            if held < 0 || (T::EXACT && !clean) {
                // the measurement was disturbed: never reported, only counted
                stats.discarded += 1;
            }
            else if T::EXACT {
                if heap != held as usize {
                    fails.push(MemFailure { tags: vec!["C09"], sig: format!("heap!=allocator:{}", name),
                        msg: format!("{}: heap_size {} but the value holds {} bytes from the allocator (structural {})", name, heap, held, reference) });
                }
            }
            else if heap > held as usize || heap < reference {
                fails.push(MemFailure { tags: vec!["C09"], sig: format!("heap-outside-bounds:{}", name),
                    msg: format!("{}: heap_size {} outside [structural lower bound {}, allocator {}]", name, heap, reference, held) });
            }
            if slack {
                stats.nontrivial9.push(format!("{}|slack", name));
            }
        }

        // ---- bulk helpers over generated iterators (C08 c)
        let n = int(&mut u, 0, 7);
        let elems: Vec<T> = (0..n).map(|_| T::build(&mut u, 1)).collect();
        let elems2: Vec<T> = (0..int(&mut u, 0, 3)).map(|_| T::build(&mut u, 1)).collect();
        let mask = int(&mut u, 0, 255) as u32;
        let skip = int(&mut u, 0, 3);
        let take = int(&mut u, 0, 6);
        let step = int(&mut u, 1, 3);
        let mut check = |adaptor: &str, got: usize, want: usize, which: &str, stats: &mut MemStats| {
            stats.checks += 1;
            if got != want {
                fails.push(MemFailure { tags: vec!["C08"], sig: format!("{}:{}:{}", which, adaptor, name),
                    msg: format!("{}::{} over {} of {} elements returned {} but the element-wise sum is {}",
                        name, which, adaptor, n, got, want) });
            }
        };
        // identity (exact size)
        check("identity", T::heap_size_sum_iter(|| elems.iter()), sum_heap(elems.iter()), "heap_size_sum_iter", stats);
        check("identity", T::heap_size_sum_exact_size_iter(|| elems.iter()), sum_heap(elems.iter()), "heap_size_sum_exact_size_iter", stats);
        check("identity", T::value_size_sum_iter(elems.iter()), sum_value(elems.iter()), "value_size_sum_iter", stats);
        check("identity", T::value_size_sum_exact_size_iter(elems.iter()), sum_value(elems.iter()), "value_size_sum_exact_size_iter", stats);
        // rev
        check("rev", T::heap_size_sum_iter(|| elems.iter().rev()), sum_heap(elems.iter().rev()), "heap_size_sum_iter", stats);
        check("rev", T::heap_size_sum_exact_size_iter(|| elems.iter().rev()), sum_heap(elems.iter().rev()), "heap_size_sum_exact_size_iter", stats);
        // skip / take
        check("skip-take", T::heap_size_sum_iter(|| elems.iter().skip(skip).take(take)), sum_heap(elems.iter().skip(skip).take(take)), "heap_size_sum_iter", stats);
        check("skip-take", T::heap_size_sum_exact_size_iter(|| elems.iter().skip(skip).take(take)), sum_heap(elems.iter().skip(skip).take(take)), "heap_size_sum_exact_size_iter", stats);
        check("skip-take", T::value_size_sum_iter(elems.iter().skip(skip).take(take)), sum_value(elems.iter().skip(skip).take(take)), "value_size_sum_iter", stats);
        check("skip-take", T::value_size_sum_exact_size_iter(elems.iter().skip(skip).take(take)), sum_value(elems.iter().skip(skip).take(take)), "value_size_sum_exact_size_iter", stats);
        // step_by
        check("step_by", T::heap_size_sum_iter(|| elems.iter().step_by(step)), sum_heap(elems.iter().step_by(step)), "heap_size_sum_iter", stats);
        check("step_by", T::heap_size_sum_exact_size_iter(|| elems.iter().step_by(step)), sum_heap(elems.iter().step_by(step)), "heap_size_sum_exact_size_iter", stats);
        check("step_by", T::value_size_sum_exact_size_iter(elems.iter().step_by(step)), sum_value(elems.iter().step_by(step)), "value_size_sum_exact_size_iter", stats);
        // filter (not exact size)
        let f = |(i, _): &(usize, &T)| mask >> (i % 8) & 1 == 1;
        check("filter", T::heap_size_sum_iter(|| elems.iter().enumerate().filter(f).map(|(_, e)| e)),
            sum_heap(elems.iter().enumerate().filter(f).map(|(_, e)| e)), "heap_size_sum_iter", stats);
        check("filter", T::value_size_sum_iter(elems.iter().enumerate().filter(f).map(|(_, e)| e)),
            sum_value(elems.iter().enumerate().filter(f).map(|(_, e)| e)), "value_size_sum_iter", stats);
        // chain of two sources
        check("chain", T::heap_size_sum_iter(|| elems.iter().chain(elems2.iter())), sum_heap(elems.iter().chain(elems2.iter())), "heap_size_sum_iter", stats);
        check("chain", T::value_size_sum_iter(elems.iter().chain(elems2.iter())), sum_value(elems.iter().chain(elems2.iter())), "value_size_sum_iter", stats);
        // the same element several times (nothing says the references are distinct)
        if let Some(first) = elems.first() {
            let k = take + step;
            check("repeat_n", T::heap_size_sum_iter(|| std::iter::repeat_n(first, k)), k * first.heap_size(), "heap_size_sum_iter", stats);
            check("repeat_n", T::heap_size_sum_exact_size_iter(|| std::iter::repeat_n(first, k)), k * first.heap_size(), "heap_size_sum_exact_size_iter", stats);
            check("repeat_n", T::value_size_sum_iter(std::iter::repeat_n(first, k)), k * first.value_size(), "value_size_sum_iter", stats);
            check("repeat_n", T::value_size_sum_exact_size_iter(std::iter::repeat_n(first, k)), k * first.value_size(), "value_size_sum_exact_size_iter", stats);
            check("cycle-take", T::heap_size_sum_iter(|| elems.iter().cycle().take(k + n)), sum_heap(elems.iter().cycle().take(k + n)), "heap_size_sum_iter", stats);
            check("cycle-take", T::value_size_sum_iter(elems.iter().cycle().take(k + n)), sum_value(elems.iter().cycle().take(k + n)), "value_size_sum_iter", stats);
        }
        // both ends consumed before the helper sees the iterator
        {
            let trimmed = || { let mut it = elems.iter(); if skip % 2 == 1 { it.next(); } if take % 2 == 1 { it.next_back(); } it };
            check("trimmed", T::heap_size_sum_iter(trimmed), sum_heap(trimmed()), "heap_size_sum_iter", stats);
            check("trimmed", T::heap_size_sum_exact_size_iter(trimmed), sum_heap(trimmed()), "heap_size_sum_exact_size_iter", stats);
            check("trimmed", T::value_size_sum_exact_size_iter(trimmed()), sum_value(trimmed()), "value_size_sum_exact_size_iter", stats);
        }
        // mapped: projection out of a tuple, and through a box
        let tagged: Vec<(T, u8)> = elems.into_iter().map(|e| (e, 7u8)).collect();
        check("map-field", T::heap_size_sum_iter(|| tagged.iter().map(|t| &t.0)), sum_heap(tagged.iter().map(|t| &t.0)), "heap_size_sum_iter", stats);
        check("map-field", T::heap_size_sum_exact_size_iter(|| tagged.iter().map(|t| &t.0)), sum_heap(tagged.iter().map(|t| &t.0)), "heap_size_sum_exact_size_iter", stats);
        check("map-field", T::value_size_sum_exact_size_iter(tagged.iter().map(|t| &t.0)), sum_value(tagged.iter().map(|t| &t.0)), "value_size_sum_exact_size_iter", stats);
        let boxed: Vec<Box<T>> = elems2.into_iter().map(Box::new).collect();
        check("map-unbox", T::heap_size_sum_iter(|| boxed.iter().map(|b| &**b)), sum_heap(boxed.iter().map(|b| &**b)), "heap_size_sum_iter", stats);
        check("map-unbox", T::heap_size_sum_exact_size_iter(|| boxed.iter().map(|b| &**b)), sum_heap(boxed.iter().map(|b| &**b)), "heap_size_sum_exact_size_iter", stats);
        if T::LEVELS >= 2 && n >= 2 {
            for a in ["identity", "rev", "skip-take", "step_by", "filter", "chain", "repeat_n", "cycle-take", "trimmed", "map-field", "map-unbox"] {
                stats.nontrivial8.push(format!("{}|{}", name, a));
            }
        }
        fails
    }
}

/// Bulk helpers on unsized element types ([U], str), which the Sized
/// runner cannot reach.
pub struct UnsizedRunner;

impl ShapeRun for UnsizedRunner {
    fn name(&self) -> String { "unsized:[String],[u16],str".into() }

    fn run(&self, bytes: &[u8], stats: &mut MemStats) -> Vec<MemFailure> {
        let mut fails = Vec::new();
        let mut u = Unstructured::new(bytes);
        let a: Vec<Box<[String]>> = Vec::build(&mut u, 0);
        let b: Vec<Box<[u16]>> = Vec::build(&mut u, 0);
        let c: Vec<Box<str>> = Vec::build(&mut u, 0);
        let mask = int(&mut u, 0, 255) as u32;
        let mut check = |what: &str, got: usize, want: usize, stats: &mut MemStats| {
            stats.checks += 1;
            if got != want {
                fails.push(MemFailure { tags: vec!["C08"], sig: format!("unsized:{}", what),
                    msg: format!("{} returned {} but the element-wise sum is {}", what, got, want) });
            }
        };
        let f = |(i, _): &(usize, &Box<[String]>)| mask >> (i % 8) & 1 == 1;
        check("<[String]>::heap_size_sum_iter", <[String]>::heap_size_sum_iter(|| a.iter().map(|x| &**x)), a.iter().map(|x| x.heap_size() - std::mem::size_of_val(&**x)).sum(), stats);
        check("<[String]>::heap_size_sum_iter(filter)", <[String]>::heap_size_sum_iter(|| a.iter().enumerate().filter(f).map(|(_, x)| &**x)),
            a.iter().enumerate().filter(f).map(|(_, x)| (**x).heap_size()).sum(), stats);
        check("<[String]>::heap_size_sum_exact_size_iter", <[String]>::heap_size_sum_exact_size_iter(|| a.iter().map(|x| &**x)), a.iter().map(|x| (**x).heap_size()).sum(), stats);
        check("<[String]>::value_size_sum_iter", <[String]>::value_size_sum_iter(a.iter().map(|x| &**x)), a.iter().map(|x| (**x).value_size()).sum(), stats);
        check("<[String]>::value_size_sum_exact_size_iter", <[String]>::value_size_sum_exact_size_iter(a.iter().map(|x| &**x)), a.iter().map(|x| std::mem::size_of_val(&**x)).sum(), stats);
        check("<[u16]>::heap_size_sum_iter", <[u16]>::heap_size_sum_iter(|| b.iter().map(|x| &**x)), 0, stats);
        check("<[u16]>::value_size_sum_iter", <[u16]>::value_size_sum_iter(b.iter().map(|x| &**x)), b.iter().map(|x| 2 * x.len()).sum(), stats);
        check("<[u16]>::value_size_sum_exact_size_iter", <[u16]>::value_size_sum_exact_size_iter(b.iter().map(|x| &**x)), b.iter().map(|x| 2 * x.len()).sum(), stats);
        check("str::heap_size_sum_iter", str::heap_size_sum_iter(|| c.iter().map(|x| &**x)), 0, stats);
        check("str::value_size_sum_iter", str::value_size_sum_iter(c.iter().map(|x| &**x)), c.iter().map(|x| x.len()).sum(), stats);
        check("str::value_size_sum_exact_size_iter", str::value_size_sum_exact_size_iter(c.iter().rev().map(|x| &**x)), c.iter().map(|x| x.len()).sum(), stats);
        // through the containers that delegate to these helpers
        check("Vec<Box<[String]>>::heap_size", a.heap_size(), a.ref_heap(), stats);
        check("Vec<Box<str>>::heap_size", c.heap_size(), c.ref_heap(), stats);
        if a.len() >= 2 {
            stats.nontrivial8.push("unsized|[String]".into());
        }
        if c.len() >= 2 {
            stats.nontrivial8.push("unsized|str".into());
        }
        fails
    }
}

/// Mutex / RwLock estimates while another thread holds the lock: the
/// estimate may wait, but it must come back with the full size.
pub struct LockedElsewhereRunner;

impl ShapeRun for LockedElsewhereRunner {
    fn name(&self) -> String { "locks-held-elsewhere".into() }

    fn run(&self, bytes: &[u8], stats: &mut MemStats) -> Vec<MemFailure> {
        use std::sync::mpsc::channel;
        let mut fails = Vec::new();
        let mut u = Unstructured::new(bytes);
        let inner = String::build(&mut u, 0);
        let want = inner.capacity();
        let which = int(&mut u, 0, 2);
        let hold_ms = 3 + int(&mut u, 0, 5) as u64;
        stats.checks += 1;
        let (name, got) = match which {
            0 => {
                let m = Mutex::new(inner);
                let (tx, rx) = channel::<()>();
                let got = std::thread::scope(|s| {
                    s.spawn(|| { let g = m.lock().unwrap(); tx.send(()).unwrap(); std::thread::sleep(std::time::Duration::from_millis(hold_ms)); drop(g); });
                    rx.recv().unwrap();
                    m.heap_size()
                });
                ("Mutex<String> locked by another thread", got)
            },
            1 => {
                let m = RwLock::new(inner);
                let (tx, rx) = channel::<()>();
                let got = std::thread::scope(|s| {
                    s.spawn(|| { let g = m.write().unwrap(); tx.send(()).unwrap(); std::thread::sleep(std::time::Duration::from_millis(hold_ms)); drop(g); });
                    rx.recv().unwrap();
                    m.heap_size()
                });
                ("RwLock<String> write-locked by another thread", got)
            },
            _ => {
                let m = vec![Mutex::new(inner), Mutex::new(String::from("xy"))];
                let (tx, rx) = channel::<()>();
                let got = std::thread::scope(|s| {
                    s.spawn(|| { let g = m[0].lock().unwrap(); tx.send(()).unwrap(); std::thread::sleep(std::time::Duration::from_millis(hold_ms)); drop(g); });
                    rx.recv().unwrap();
                    m.heap_size() - m.capacity() * std::mem::size_of::<Mutex<String>>() - m[1].lock().unwrap().capacity()
                });
                ("Vec<Mutex<String>> with one element locked by another thread", got)
            },
        };
        if got != want {
            fails.push(MemFailure { tags: vec!["C08", "C09"], sig: format!("lock-held:{}", which),
                msg: format!("{}: heap_size {} but the protected value holds {}", name, got, want) });
        }
        if want > 0 {
            stats.nontrivial8.push(format!("locked-elsewhere|{}", which));
            stats.nontrivial9.push(format!("locked-elsewhere|{}", which));
        }
        fails
    }
}

/// Mutex / RwLock that were poisoned (a thread panicked holding the guard).
/// The unchanged crate unwraps the lock result, i.e. it panics: that is
/// tolerated (counted). But an estimate that *is* returned has to be right.
pub struct PoisonedRunner;

impl ShapeRun for PoisonedRunner {
    fn name(&self) -> String { "locks-poisoned".into() }

    fn run(&self, bytes: &[u8], stats: &mut MemStats) -> Vec<MemFailure> {
        let mut fails = Vec::new();
        let mut u = Unstructured::new(bytes);
        let inner = String::build(&mut u, 0);
        let want = inner.capacity();
        let which = int(&mut u, 0, 2);
        stats.checks += 1;
        let poison = |f: &mut dyn FnMut()| { let _ = std::panic::catch_unwind(std::panic::AssertUnwindSafe(|| f())); };
        let (name, got): (&str, Option<usize>) = match which {
            0 => {
                let m = Mutex::new(inner);
                poison(&mut || { let _g = m.lock().unwrap(); panic!("{}", crate::tracked::INJECTED); });
                ("poisoned Mutex<String>", crate::tracked::expecting_panics(|| std::panic::catch_unwind(std::panic::AssertUnwindSafe(|| m.heap_size())).ok()))
            },
            1 => {
                let m = RwLock::new(inner);
                poison(&mut || { let _g = m.write().unwrap(); panic!("{}", crate::tracked::INJECTED); });
                ("poisoned RwLock<String>", crate::tracked::expecting_panics(|| std::panic::catch_unwind(std::panic::AssertUnwindSafe(|| m.heap_size())).ok()))
            },
            _ => {
                let m = Box::new(Mutex::new(inner));
                poison(&mut || { let _g = m.lock().unwrap(); panic!("{}", crate::tracked::INJECTED); });
                ("Box<poisoned Mutex<String>>", crate::tracked::expecting_panics(|| std::panic::catch_unwind(std::panic::AssertUnwindSafe(|| m.heap_size())).ok())
                    .map(|h| h - std::mem::size_of::<Mutex<String>>()))
            },
        };
        match got {
            None => stats.discarded += 0,
            Some(g) if g != want => fails.push(MemFailure { tags: vec!["C08", "C09"], sig: format!("lock-poisoned:{}", which),
                msg: format!("{}: heap_size {} but the protected value holds {}", name, g, want) }),
            Some(_) => { },
        }
        if want > 0 {
            stats.nontrivial8.push(format!("poisoned|{}", which));
            stats.nontrivial9.push(format!("poisoned|{}", which));
        }
        fails
    }
}

macro_rules! menu {
    ($($t:ty),* $(,)?) => {
        vec![$(Box::new(Runner::<$t>(PhantomData)) as Box<dyn ShapeRun + Send>),*]
    };
}

pub fn menu() -> Vec<Box<dyn ShapeRun>> {
    menu_send().into_iter().map(|b| b as Box<dyn ShapeRun>).collect()
}

pub fn menu_send() -> Vec<Box<dyn ShapeRun + Send>> {
    let mut m: Vec<Box<dyn ShapeRun + Send>> = menu![
        // leaves and strings
        u8, u64, (), char, String, CString, OsString, PathBuf,
        // vectors
        Vec<u8>, Vec<u64>, Vec<()>, Vec<String>, Vec<Vec<u8>>, Vec<Vec<String>>,
        Vec<Box<u32>>, Vec<Box<String>>, Vec<Box<[u16]>>, Vec<Box<[String]>>, Vec<Box<str>>,
        Vec<Option<String>>, Vec<Result<String, Vec<u8>>>, Vec<(u8, String)>,
        Vec<(String, Vec<u16>, u8)>, Vec<[u8; 3]>, Vec<[String; 2]>, Vec<[String; 0]>,
        Vec<[(Box<String>, u8); 3]>, Vec<[[String; 2]; 2]>, Vec<[Vec<u8>; 7]>,
        Vec<Wrapping<u32>>, Vec<Range<u32>>, Vec<RangeInclusive<u8>>, Vec<CString>,
        Vec<OsString>, Vec<PathBuf>, Vec<Mutex<String>>, Vec<BinaryHeap<String>>,
        Vec<HashMap<u8, String>>, Vec<Box<Path>>, Vec<Box<CStr>>, Vec<[[u8; 0]; 3]>,
        Vec<Vec<[String; 0]>>, Vec<(String,)>, Vec<Option<Box<[String]>>>,
        // boxes
        Box<u8>, Box<String>, Box<Vec<String>>, Box<[u8]>, Box<[String]>, Box<[Box<[u8]>]>,
        Box<str>, Box<CStr>, Box<Path>, Box<(String, u8)>, Box<[String; 3]>,
        Box<Option<Box<String>>>, Box<[(String, Vec<u8>)]>, Box<Box<Vec<u8>>>,
        // arrays
        [u8; 0], [String; 1], [String; 3], [Vec<u8>; 2], [(Vec<u8>, Box<[String]>); 2],
        [[String; 0]; 3], [Box<[u8]>; 7], [Option<String>; 3], [[Vec<String>; 2]; 3],
        [String; 0], [(String, String); 7],
        // tuples of every arity
        (String,), (String, u8), (u8, String, Vec<u8>), (String, u8, Vec<String>, Box<str>),
        (u8, String, u16, Vec<u8>, String),
        (String, u8, String, u8, String, Vec<u16>),
        (u8, u8, String, Box<[u8]>, u64, String, Option<String>),
        (String, Vec<u8>, u8, u16, u32, u64, String, Box<String>),
        (u8, String, u8, String, u8, String, u8, String, Vec<String>),
        (String, u8, Vec<u8>, u16, Box<str>, u32, Option<String>, u64, [String; 2], char),
        ((String, Vec<u8>), (Box<String>, (u8, String))),
        // option / result
        Option<String>, Option<Vec<String>>, Option<Result<Vec<String>, Box<str>>>,
        Result<String, u8>, Result<u8, Vec<String>>, Result<Box<[String]>, PathBuf>,
        // hash containers
        HashMap<u8, String>, HashMap<String, Vec<Box<u16>>>, HashMap<u16, ()>,
        HashMap<u8, HashSet<String>>, HashSet<String>, HashSet<u32>,
        HashMap<String, (Vec<u8>, Box<str>)>, Option<HashMap<u8, Vec<String>>>,
        // binary heaps
        BinaryHeap<u32>, BinaryHeap<String>, BinaryHeap<(u8, String)>, BinaryHeap<Vec<u8>>,
        // wrapping, ranges, locks
        Wrapping<u64>, Vec<Wrapping<u8>>, Range<u64>, Range<String>, RangeFrom<u8>,
        RangeFrom<Vec<u8>>, RangeTo<u16>, RangeTo<String>, RangeInclusive<u32>,
        RangeInclusive<String>, RangeToInclusive<u8>, RangeToInclusive<Box<str>>, RangeFull,
        Mutex<String>, Mutex<Vec<String>>, RwLock<String>, RwLock<Vec<Box<str>>>,
        (PathBuf, OsString, CString), Option<PathBuf>, Mutex<Option<Vec<PathBuf>>>,
        Vec<Range<String>>, Box<[Range<String>]>, Vec<RangeInclusive<String>>, Vec<RangeFrom<String>>,
        Vec<RangeTo<Vec<u8>>>, Vec<RangeToInclusive<String>>, HashMap<u8, Range<String>>, [Range<String>; 3],
        Vec<Wrapping<u64>>, Vec<RwLock<Vec<u8>>>, BinaryHeap<Box<str>>, HashSet<Box<str>>, Vec<Option<Range<String>>>,
        Vec<(Range<String>, u8)>, Box<[Option<String>]>, Vec<Result<Box<str>, String>>, Vec<HashSet<u16>>,
        Vec<Vec<()>>, Vec<Vec<[u8; 0]>>, Box<[Vec<()>]>, (Vec<()>, Vec<()>), HashMap<u8, Vec<()>>, Vec<Box<[()]>>, [Vec<()>; 3],
        Vec<(Vec<()>, String)>, BinaryHeap<Vec<()>>, Vec<Vec<Vec<()>>>,
        // further leaves (every one goes through the same macro in the crate) and unsized boxes
        i8, u128, usize, f32, bool, f64, i128, std::time::Duration, std::num::NonZeroU8, std::cmp::Ordering,
        Vec<u128>, Vec<(u8, u128)>, Vec<std::num::NonZeroU64>, Vec<std::net::Ipv4Addr>, Vec<std::net::IpAddr>,
        Vec<std::net::SocketAddr>, Vec<bool>, Vec<f32>, Vec<usize>, Vec<std::cmp::Ordering>, Vec<char>,
        Box<[std::time::Duration]>, [std::net::IpAddr; 3], (std::marker::PhantomPinned, String),
        Vec<std::collections::hash_map::RandomState>, Option<std::num::NonZeroU8>, Vec<Option<std::num::NonZeroU64>>,
        Box<std::ffi::OsStr>, Vec<Box<std::ffi::OsStr>>, (Box<std::ffi::OsStr>, Box<Path>, Box<CStr>), Option<Box<std::ffi::OsStr>>,
        PhantomData<String>, Vec<PhantomData<String>>, (PhantomData<Vec<u8>>, String), Box<PhantomData<u64>>,
        Vec<Box<i128>>, Vec<Box<(u8, String)>>, Vec<Box<[u8; 3]>>, Vec<Box<Option<String>>>, Vec<Box<Box<str>>>,
        Box<Mutex<String>>, Vec<Box<Mutex<Vec<u8>>>>, Vec<Option<Box<str>>>, Vec<[Box<str>; 2]>, Vec<[Option<Box<[u8]>>; 3]>,
        // user-defined element types inside the crate's containers
        UMock, UHead, ULen, UPeek,
        Vec<UMock>, HashSet<UMock>, HashMap<u8, UMock>, HashMap<UMock, UMock>, HashMap<UMock, String>, BinaryHeap<UMock>,
        [UMock; 3], Vec<[UMock; 2]>, Option<UMock>, Box<UMock>, Vec<(UMock, String)>, Box<[UMock]>, HashSet<(UMock, u8)>, HashMap<u8, [UMock; 2]>,
        Vec<UHead>, Vec<[UHead; 3]>, Box<[[UHead; 2]]>, [[UHead; 2]; 3], Vec<[UHead; 0]>, Vec<[[UHead; 2]; 2]>, HashMap<u8, [UHead; 2]>,
        Vec<(UHead, ULen)>, Vec<Box<UHead>>, Vec<Wrapping<UHead>>, Vec<Option<UHead>>, BinaryHeap<UHead>, HashSet<UHead>,
        Vec<ULen>, Vec<[ULen; 3]>, Box<[[ULen; 2]]>, [[ULen; 3]; 2], Vec<[ULen; 0]>, Vec<Box<[ULen; 2]>>, HashMap<ULen, [ULen; 2]>, Vec<[(ULen, UHead); 2]>,
        Vec<UPeek>, Vec<[UPeek; 3]>, Box<[[UPeek; 2]]>, [[UPeek; 2]; 3], Vec<[UPeek; 1]>, Vec<Box<[UPeek]>>, Vec<(u8, [UPeek; 2])>, Vec<Range<UPeek>>,
        // references
        &'static String, Vec<&'static String>, (&'static Vec<u8>, String),
        &'static mut String, Vec<&'static mut Vec<u8>>, (&'static mut String, Box<str>), Option<&'static mut String>,
    ];
    m.push(Box::new(UnsizedRunner));
    m.push(Box::new(LockedElsewhereRunner));
    m.push(Box::new(PoisonedRunner));
    m
}

// -------------------------------------------------------- totality (C08 d)

/// Large element counts on a thread with the default 2 MiB stack. Returns
/// a description of what was evaluated; a stack overflow kills the process
/// (the orchestrator observes that).
pub fn big_kinds() -> Vec<&'static str> {
    vec!["vec-empty-array-of-string", "vec-unit", "vec-empty-array-of-u8", "vec-nested-empty-arrays",
        "vec-array1-u8", "vec-box-unit", "vec-tuple-units", "boxed-slice-empty-arrays",
        "vec-option-empty-array", "vec-vec-empty-arrays", "array-of-empty-arrays",
        "vec-string", "hashset-u32", "binary-heap-u32"]
}

pub fn run_big(kind: &str, count: usize) -> Result<String, String> {
    let kind = kind.to_string();
    let handle = std::thread::Builder::new().stack_size(2 * 1024 * 1024).spawn(move || -> Result<String, String> {
        let check = |name: &str, got: usize, want: usize| -> Result<String, String> {
            if got == want { Ok(format!("{} count={} heap_size={}", name, count, got)) }
            else { Err(format!("{} with {} elements: heap_size {} but expected {}", name, count, got, want)) }
        };
        match kind.as_str() {
            "vec-empty-array-of-string" => {
                let v: Vec<[String; 0]> = (0..count).map(|_| []).collect();
                let a = v.heap_size();
                let b = <[String; 0]>::heap_size_sum_exact_size_iter(|| v.iter());
                let c = <[String; 0]>::heap_size_sum_iter(|| v.iter());
                check("Vec<[String; 0]>", a + b + c, 0)
            },
            "vec-unit" => { let v: Vec<()> = vec![(); count]; check("Vec<()>", v.heap_size(), 0) },
            "vec-empty-array-of-u8" => { let v: Vec<[u8; 0]> = vec![[]; count]; check("Vec<[u8; 0]>", v.heap_size(), 0) },
            "vec-nested-empty-arrays" => {
                let v: Vec<[[String; 0]; 3]> = (0..count).map(|_| [[], [], []]).collect();
                check("Vec<[[String; 0]; 3]>", v.heap_size(), 0)
            },
            "vec-array1-u8" => { let v: Vec<[u8; 1]> = vec![[1]; count]; check("Vec<[u8; 1]>", v.heap_size(), v.capacity()) },
            "vec-box-unit" => { let v: Vec<Box<()>> = (0..count).map(|_| Box::new(())).collect(); check("Vec<Box<()>>", v.heap_size(), v.capacity() * 8) },
            "vec-tuple-units" => { let v: Vec<((), [u8; 0], ())> = vec![((), [], ()); count]; check("Vec<((), [u8; 0], ())>", v.heap_size(), 0) },
            "boxed-slice-empty-arrays" => {
                let v: Box<[[String; 0]]> = (0..count).map(|_| []).collect::<Vec<_>>().into_boxed_slice();
                check("Box<[[String; 0]]>", v.heap_size(), 0)
            },
            "vec-option-empty-array" => {
                let v: Vec<Option<[String; 0]>> = (0..count).map(|_| Some([])).collect();
                check("Vec<Option<[String; 0]>>", v.heap_size(), v.capacity() * std::mem::size_of::<Option<[String; 0]>>())
            },
            "vec-vec-empty-arrays" => {
                let inner = count / 4;
                let v: Vec<Vec<[String; 0]>> = (0..4).map(|_| (0..inner).map(|_| []).collect()).collect();
                check("Vec<Vec<[String; 0]>>", v.heap_size(), v.capacity() * 24)
            },
            "array-of-empty-arrays" => {
                let v: Vec<[[u16; 0]; 7]> = vec![[[]; 7]; count / 7];
                check("Vec<[[u16; 0]; 7]>", v.heap_size(), 0)
            },
            "vec-string" => {
                let n = count / 16;
                let v: Vec<String> = (0..n).map(|_| String::from("ab")).collect();
                check("Vec<String>", v.heap_size(), v.capacity() * 24 + 2 * n)
            },
            "hashset-u32" => {
                let n = count / 16;
                let v: HashSet<u32> = (0..n as u32).collect();
                check("HashSet<u32>", v.heap_size(), v.capacity() * 4)
            },
            "binary-heap-u32" => {
                let n = count / 4;
                let v: BinaryHeap<u32> = (0..n as u32).collect();
                check("BinaryHeap<u32>", v.heap_size(), v.capacity() * 4)
            },
            other => Err(format!("unknown big kind {}", other)),
        }
    }).map_err(|e| format!("cannot spawn: {}", e))?;
    match handle.join() {
        Ok(r) => r,
        Err(p) => Err(format!("panicked: {}", crate::tracked::panic_message(&*p))),
    }
}
