//! C19, schedule part: generated `&self` operations on several threads over
//! one shared cache. Meant to run in the ThreadSanitizer build, where any
//! write through `&LruCache` shows up as a data race; in every build the
//! results of the reads are also compared with the model.

use std::sync::{Arc, Barrier};

use crate::interp::{Cache, World};
use crate::ops::{Case, Form, KeySel};
use crate::tracked::TKey;

#[derive(Clone, Debug, PartialEq, Eq)]
pub enum SOp {
    Peek(KeySel, Form),
    PeekEntry(KeySel, Form),
    Contains(KeySel, Form),
    PeekLru,
    PeekMru,
    Scalars,
    /// kind 0 iter, 1 keys, 2 values; calls: true = next_back; then to the end
    Walk(u8, Vec<bool>, bool),
    Debug,
    Clone,
}

#[derive(Clone, Debug)]
pub struct SharedCase {
    pub prefix: Case,
    pub threads: Vec<Vec<SOp>>,
}

impl SOp {
    pub fn to_text(&self) -> String {
        match self {
            SOp::Peek(k, f) => format!("peek {} {}", k.to_text(), f.to_text()),
            SOp::PeekEntry(k, f) => format!("peek_entry {} {}", k.to_text(), f.to_text()),
            SOp::Contains(k, f) => format!("contains {} {}", k.to_text(), f.to_text()),
            SOp::PeekLru => "peek_lru".into(),
            SOp::PeekMru => "peek_mru".into(),
            SOp::Scalars => "scalars".into(),
            SOp::Walk(kind, calls, full) => format!("walk {} {} {}", kind,
                if calls.is_empty() { "-".to_string() } else { calls.iter().map(|&b| if b { 'b' } else { 'f' }).collect() },
                if *full { "full" } else { "stop" }),
            SOp::Debug => "debug".into(),
            SOp::Clone => "clone".into(),
        }
    }

    pub fn from_text(s: &str) -> Option<SOp> {
        let t: Vec<&str> = s.split_whitespace().collect();
        Some(match *t.first()? {
            "peek" => SOp::Peek(KeySel::from_text(t.get(1)?)?, Form::from_text(t.get(2)?)?),
            "peek_entry" => SOp::PeekEntry(KeySel::from_text(t.get(1)?)?, Form::from_text(t.get(2)?)?),
            "contains" => SOp::Contains(KeySel::from_text(t.get(1)?)?, Form::from_text(t.get(2)?)?),
            "peek_lru" => SOp::PeekLru,
            "peek_mru" => SOp::PeekMru,
            "scalars" => SOp::Scalars,
            "walk" => SOp::Walk(t.get(1)?.parse().ok()?,
                if *t.get(2)? == "-" { vec![] } else { t.get(2)?.chars().map(|c| c == 'b').collect() },
                *t.get(3)? == "full"),
            "debug" => SOp::Debug,
            "clone" => SOp::Clone,
            _ => return None,
        })
    }
}

impl SharedCase {
    pub fn to_text(&self) -> String {
        let mut s = self.prefix.to_text();
        for (i, t) in self.threads.iter().enumerate() {
            for op in t {
                s.push_str(&format!("shared t={} {}\n", i, op.to_text()));
            }
        }
        s
    }

    pub fn from_text(text: &str) -> Result<SharedCase, String> {
        let mut prefix = String::new();
        let mut threads: Vec<Vec<SOp>> = Vec::new();
        for l in text.lines() {
            let l = l.trim();
            if let Some(rest) = l.strip_prefix("shared t=") {
                let (i, op) = rest.split_once(' ').ok_or("bad shared line")?;
                let i: usize = i.parse().map_err(|_| "bad thread index")?;
                while threads.len() <= i {
                    threads.push(Vec::new());
                }
                threads[i].push(SOp::from_text(op).ok_or_else(|| format!("bad shared op: {}", op))?);
            }
            else {
                prefix.push_str(l);
                prefix.push('\n');
            }
        }
        Ok(SharedCase { prefix: Case::from_text(&prefix)?, threads })
    }
}

/// Concrete (resolved) operation executed by a thread.
#[derive(Clone, Debug)]
enum Resolved {
    Peek(u16, Form, Option<u64>),
    PeekEntry(u16, Form, Option<(u64, u64)>),
    Contains(u16, Form, bool),
    PeekLru(Option<u64>),
    PeekMru(Option<u64>),
    Scalars(usize, usize, usize),
    Walk(u8, Vec<bool>, bool, Vec<(u64, u64)>),
    Debug,
    Clone(usize),
}

fn exec(cache: &Cache, op: &Resolved) -> Result<(), String> {
    match op {
        Resolved::Peek(k, f, want) => {
            let q = TKey::new(*k, 0);
            let got = match f { Form::Owned => cache.peek(&q), Form::Borrowed => cache.peek(k) }.map(|v| v.id);
            if got != *want { return Err(format!("peek({}) = {:?}, expected {:?}", k, got, want)); }
        },
        Resolved::PeekEntry(k, f, want) => {
            let q = TKey::new(*k, 0);
            let got = match f { Form::Owned => cache.peek_entry(&q), Form::Borrowed => cache.peek_entry(k) }.map(|(a, b)| (a.id, b.id));
            if got != *want { return Err(format!("peek_entry({}) = {:?}, expected {:?}", k, got, want)); }
        },
        Resolved::Contains(k, f, want) => {
            let q = TKey::new(*k, 0);
            let got = match f { Form::Owned => cache.contains(&q), Form::Borrowed => cache.contains(k) };
            if got != *want { return Err(format!("contains({}) = {}, expected {}", k, got, want)); }
        },
        Resolved::PeekLru(want) => {
            let got = cache.peek_lru().map(|(k, _)| k.id);
            if got != *want { return Err(format!("peek_lru = {:?}, expected {:?}", got, want)); }
        },
        Resolved::PeekMru(want) => {
            let got = cache.peek_mru().map(|(k, _)| k.id);
            if got != *want { return Err(format!("peek_mru = {:?}, expected {:?}", got, want)); }
        },
        Resolved::Scalars(len, cur, max) => {
            let got = (cache.len(), cache.current_size(), cache.max_size());
            let _ = (cache.capacity(), cache.is_empty(), cache.hasher().kind);
            if got != (*len, *cur, *max) { return Err(format!("scalars = {:?}, expected {:?}", got, (len, cur, max))); }
        },
        Resolved::Walk(kind, calls, full, order) => {
            let n = order.len();
            let (mut i, mut j) = (0usize, 0usize);
            let mut expect = |back: bool| -> Option<(u64, u64)> {
                if i + j >= n { None } else if back { j += 1; Some(order[n - j]) } else { i += 1; Some(order[i - 1]) }
            };
            macro_rules! walk {
                ($it:expr, $map:expr, $proj:expr) => {{
                    let mut it = $it;
                    for &b in calls {
                        let got = if b { it.next_back() } else { it.next() }.map($map);
                        let want = expect(b).map($proj);
                        if got != want { return Err(format!("walk kind {} returned {:?}, expected {:?}", kind, got, want)); }
                    }
                    if *full {
                        let mut steps = 0usize;
                        loop {
                            let got = it.next().map($map);
                            let want = expect(false).map($proj);
                            if got != want { return Err(format!("walk kind {} returned {:?}, expected {:?}", kind, got, want)); }
                            if got.is_none() { break; }
                            steps += 1;
                            if steps > n + 2 { return Err(format!("walk kind {} does not terminate", kind)); }
                        }
                    }
                }};
            }
            match kind % 3 {
                0 => walk!(cache.iter(), |(k, v)| (k.id, v.id), |p: (u64, u64)| p),
                1 => walk!(cache.keys(), |k| k.id, |p: (u64, u64)| p.0),
                _ => walk!(cache.values(), |v| v.id, |p: (u64, u64)| p.1),
            }
        },
        Resolved::Debug => {
            let s = format!("{:?}", cache);
            std::hint::black_box(s.len());
        },
        Resolved::Clone(len) => {
            let c = cache.clone();
            if c.len() != *len { return Err(format!("clone has len {}, expected {}", c.len(), len)); }
        },
    }
    Ok(())
}

pub struct SharedOutcome {
    pub failures: Vec<String>,
    pub prefix_failed: bool,
    pub len: usize,
    pub ops: usize,
    pub nontrivial: Vec<String>,
}

pub fn run_shared(case: &SharedCase) -> SharedOutcome {
    let mut w = World::new(&case.prefix.config, Some("C19"));
    for op in &case.prefix.ops {
        w.step(op);
        if !w.fails.is_empty() {
            break;
        }
    }
    let mut out = SharedOutcome { failures: vec![], prefix_failed: false, len: 0, ops: 0, nontrivial: vec![] };
    if !w.fails.is_empty() {
        out.prefix_failed = true;
        w.leaks_allowed = true;
        w.finish();
        return out;
    }
    w.active = 0;
    let model = w.sides[0].model.clone();
    let order: Vec<(u64, u64)> = model.order.iter().map(|e| (e.key_id, e.val_id)).collect();
    let len = model.len();
    out.len = len;
    // resolve against the (frozen) model
    let resolved: Vec<Vec<Resolved>> = case.threads.iter().map(|t| t.iter().map(|op| {
        match op {
            SOp::Peek(k, f) => { let k = w.resolve_key(k); Resolved::Peek(k, *f, model.get(k).map(|e| e.val_id)) },
            SOp::PeekEntry(k, f) => { let k = w.resolve_key(k); Resolved::PeekEntry(k, *f, model.get(k).map(|e| (e.key_id, e.val_id))) },
            SOp::Contains(k, f) => { let k = w.resolve_key(k); Resolved::Contains(k, *f, model.contains(k)) },
            SOp::PeekLru => Resolved::PeekLru(model.order.first().map(|e| e.key_id)),
            SOp::PeekMru => Resolved::PeekMru(model.order.last().map(|e| e.key_id)),
            SOp::Scalars => Resolved::Scalars(len, model.total(), model.limit),
            SOp::Walk(kind, calls, full) => Resolved::Walk(*kind, calls.clone(), *full, order.clone()),
            SOp::Debug => Resolved::Debug,
            SOp::Clone => Resolved::Clone(len),
        }
    }).collect()).collect();
    for t in &case.threads {
        for op in t {
            out.ops += 1;
            if len >= 2 {
                out.nontrivial.push(format!("{}|{}", op.to_text().split_whitespace().next().unwrap_or(""), case.threads.len()));
            }
        }
    }
    let fp_before = w.sides[0].cache().verif_fingerprint();
    let cache = Arc::new(w.sides[0].cache.take().unwrap());
    let barrier = Arc::new(Barrier::new(resolved.len().max(1)));
    let mut handles = Vec::new();
    for ops in resolved {
        let cache = Arc::clone(&cache);
        let barrier = Arc::clone(&barrier);
        handles.push(std::thread::spawn(move || -> Vec<String> {
            barrier.wait();
            let mut errs = Vec::new();
            // twice, so that every pair of operations of different threads overlaps somewhere
            for _round in 0..2 {
                for op in &ops {
                    if let Err(e) = exec(&cache, op) {
                        errs.push(e);
                    }
                }
            }
            errs
        }));
    }
    for h in handles {
        match h.join() {
            Ok(errs) => out.failures.extend(errs),
            Err(_) => out.failures.push("a reader thread panicked".into()),
        }
    }
    let cache = match Arc::try_unwrap(cache) {
        Ok(c) => c,
        Err(_) => { out.failures.push("cache still shared".into()); return out; },
    };
    if cache.verif_fingerprint() != fp_before {
        out.failures.push("the internal structure changed while only &self operations ran".into());
    }
    w.sides[0].cache = Some(cache);
    w.leaks_allowed = true;
    w.finish();
    out
}
