//! The cache over *std* value types, measured by the crate's own `MemSize`
//! implementations (the main interpreter's values carry a synthetic size).
//! What is judged is the interplay of three things that are otherwise only
//! judged apart: the size estimate of a composite std type, the cache's
//! bookkeeping, and a `mutate` that changes the value in every way a user can
//! (variant flips, growth behind a pointer, shrinking, replacement by another
//! instance). Oracle after every step, from the public API only:
//! `current_size() == Σ entry_size(k, v)` over `iter()`, that sum `<= max_size()`,
//! `len()`, and the outcome of `mutate` / `insert` by the public `entry_size`.

use std::collections::BTreeMap;
use std::panic::{catch_unwind, AssertUnwindSafe};
use std::sync::Mutex;

use arbitrary::Unstructured;
use lru_mem::{entry_size, LruCache, MemSize, MutateError};

use crate::shapes::{int, MemFailure};

pub trait StdVal: MemSize + Sized + 'static {
    fn name() -> &'static str;
    fn make(u: &mut Unstructured) -> Self;
    /// mutates in place in one of several ways
    fn mutate(&mut self, u: &mut Unstructured);
}

fn bytes(u: &mut Unstructured, max: usize) -> Vec<u8> {
    let n = int(u, 0, max);
    let mut v = Vec::with_capacity(if int(u, 0, 1) == 0 { n } else { n + int(u, 0, 40) });
    v.resize(n, 7);
    v
}

impl StdVal for String {
    fn name() -> &'static str { "String" }
    fn make(u: &mut Unstructured) -> Self { String::from_utf8(bytes(u, 60).iter().map(|_| b'a').collect()).unwrap() }
    fn mutate(&mut self, u: &mut Unstructured) {
        match int(u, 0, 5) {
            0 => self.push_str(&"x".repeat(int(u, 0, 80))),
            1 => self.shrink_to_fit(),
            2 => self.clear(),
            3 => *self = String::with_capacity(int(u, 0, 120)),
            4 => self.reserve(int(u, 0, 100)),
            _ => { let n = int(u, 0, self.len()); self.truncate(n); },
        }
    }
}

impl StdVal for Vec<String> {
    fn name() -> &'static str { "Vec<String>" }
    fn make(u: &mut Unstructured) -> Self { (0..int(u, 0, 4)).map(|_| String::make(u)).collect() }
    fn mutate(&mut self, u: &mut Unstructured) {
        match int(u, 0, 5) {
            // only an inner allocation changes: the vector's own bytes stay as they are
            0 if !self.is_empty() => { let i = int(u, 0, self.len() - 1); self[i].push_str(&"y".repeat(int(u, 1, 90))); },
            1 if !self.is_empty() => { let i = int(u, 0, self.len() - 1); self[i] = String::new(); },
            2 => self.push(String::make(u)),
            3 => { self.pop(); },
            4 => self.shrink_to_fit(),
            _ => self.reserve(int(u, 0, 10)),
        }
    }
}

impl StdVal for Option<Box<[u8; 96]>> {
    fn name() -> &'static str { "Option<Box<[u8; 96]>>" }
    fn make(u: &mut Unstructured) -> Self { if int(u, 0, 1) == 0 { None } else { Some(Box::new([1; 96])) } }
    fn mutate(&mut self, u: &mut Unstructured) {
        // variant flips: the type's size is not a constant of the type
        match int(u, 0, 2) { 0 => *self = None, 1 => *self = Some(Box::new([2; 96])), _ => { if let Some(b) = self { b[0] = 9; } } }
    }
}

impl StdVal for (Option<Box<u64>>, [Option<String>; 2]) {
    fn name() -> &'static str { "(Option<Box<u64>>, [Option<String>; 2])" }
    fn make(u: &mut Unstructured) -> Self {
        (if int(u, 0, 1) == 0 { None } else { Some(Box::new(3)) }, [None, if int(u, 0, 1) == 0 { None } else { Some(String::make(u)) }])
    }
    fn mutate(&mut self, u: &mut Unstructured) {
        match int(u, 0, 4) {
            0 => self.0 = None,
            1 => self.0 = Some(Box::new(4)),
            2 => self.1[0] = Some(String::make(u)),
            3 => self.1[1] = None,
            _ => { if let Some(s) = &mut self.1[0] { s.push_str("zz"); } },
        }
    }
}

impl StdVal for Result<Vec<u8>, Box<str>> {
    fn name() -> &'static str { "Result<Vec<u8>, Box<str>>" }
    fn make(u: &mut Unstructured) -> Self { if int(u, 0, 1) == 0 { Ok(bytes(u, 50)) } else { Err("e".repeat(int(u, 0, 30)).into_boxed_str()) } }
    fn mutate(&mut self, u: &mut Unstructured) {
        match int(u, 0, 3) {
            0 => *self = Ok(bytes(u, 90)),
            1 => *self = Err("f".repeat(int(u, 0, 70)).into_boxed_str()),
            2 => { if let Ok(v) = self { v.extend_from_slice(&[0; 33]); } },
            _ => { if let Ok(v) = self { v.shrink_to_fit(); } },
        }
    }
}

impl StdVal for Mutex<Vec<u16>> {
    fn name() -> &'static str { "Mutex<Vec<u16>>" }
    fn make(u: &mut Unstructured) -> Self { Mutex::new(vec![5; int(u, 0, 30)]) }
    fn mutate(&mut self, u: &mut Unstructured) {
        let v = self.get_mut().unwrap();
        match int(u, 0, 2) { 0 => v.extend_from_slice(&[1; 20]), 1 => v.clear(), _ => v.shrink_to_fit() }
    }
}

impl StdVal for Box<Vec<Box<[u32]>>> {
    fn name() -> &'static str { "Box<Vec<Box<[u32]>>>" }
    fn make(u: &mut Unstructured) -> Self { Box::new((0..int(u, 0, 3)).map(|_| vec![0u32; int(u, 0, 9)].into_boxed_slice()).collect()) }
    fn mutate(&mut self, u: &mut Unstructured) {
        match int(u, 0, 3) {
            0 if !self.is_empty() => { let i = int(u, 0, self.len() - 1); self[i] = vec![1u32; int(u, 0, 40)].into_boxed_slice(); },
            1 => self.push(vec![2u32; int(u, 0, 12)].into_boxed_slice()),
            2 => { self.pop(); },
            _ => self.shrink_to_fit(),
        }
    }
}

pub const STDVAL_TYPES: [&str; 7] = [
    "String", "Vec<String>", "Option<Box<[u8; 96]>>", "(Option<Box<u64>>, [Option<String>; 2])",
    "Result<Vec<u8>, Box<str>>", "Mutex<Vec<u16>>", "Box<Vec<Box<[u32]>>>",
];

pub struct StdOutcome {
    pub fails: Vec<MemFailure>,
    pub steps: u64,
    pub events: BTreeMap<String, u64>,
}

fn check<V: StdVal>(c: &LruCache<String, V>, after: &str, fails: &mut Vec<MemFailure>, mutate_related: bool) {
    let sum: u128 = c.iter().map(|(k, v)| entry_size(k, v) as u128).sum();
    let n = c.iter().count();
    let tags = |base: Vec<&'static str>| { let mut t = base; if mutate_related { t.push("C11"); } t };
    if c.current_size() as u128 != sum {
        fails.push(MemFailure { tags: tags(vec!["C02"]), sig: format!("std-sum:{}", V::name()),
            msg: format!("[{}] after {}: current_size() = {} but entry_size over iter() sums to {}", V::name(), after, c.current_size(), sum) });
    }
    if sum > c.max_size() as u128 {
        fails.push(MemFailure { tags: tags(vec!["C01"]), sig: format!("std-bound:{}", V::name()),
            msg: format!("[{}] after {}: the entries held measure {} in total, max_size() = {}", V::name(), after, sum, c.max_size()) });
    }
    if n != c.len() || (c.len() == 0) != (c.current_size() == 0) {
        fails.push(MemFailure { tags: tags(vec!["C02"]), sig: format!("std-len:{}", V::name()),
            msg: format!("[{}] after {}: len() = {}, iter() yields {}, current_size() = {}", V::name(), after, c.len(), n, c.current_size()) });
    }
}

fn key(u: &mut Unstructured) -> String {
    // equal keys of different capacity, and the empty key
    let k = int(u, 0, 7);
    let mut s = String::with_capacity(if int(u, 0, 2) == 0 { 0 } else { int(u, 0, 64) });
    if k > 0 { s.push_str(&format!("{}", k)); }
    s
}

fn run_type<V: StdVal>(bytes: &[u8]) -> StdOutcome {
    let mut u = Unstructured::new(bytes);
    let mut fails = Vec::new();
    let mut events: BTreeMap<String, u64> = BTreeMap::new();
    let mut steps = 0u64;
    let r = catch_unwind(AssertUnwindSafe(|| {
        let limit = match int(&mut u, 0, 3) { 0 => usize::MAX, 1 => 400, 2 => 900, _ => 2500 };
        let mut c: LruCache<String, V> = LruCache::new(limit);
        let mut ev = |e: &str| *events.entry(format!("std.{}", e)).or_insert(0) += 1;
        while !u.is_empty() && fails.is_empty() && steps < 60 {
            steps += 1;
            match int(&mut u, 0, 9) {
                0 | 1 | 2 => {
                    let (k, v) = (key(&mut u), V::make(&mut u));
                    let size = entry_size(&k, &v);
                    let max = c.max_size();
                    let r = c.insert(k, v);
                    if r.is_err() != (size > max) {
                        fails.push(MemFailure { tags: vec!["C10"], sig: format!("std-insert-outcome:{}", V::name()),
                            msg: format!("[{}] insert of an entry of size {} into max_size {} returned {}", V::name(), size, max, if r.is_err() { "EntryTooLarge" } else { "Ok" }) });
                    }
                    ev("insert");
                    check(&c, "insert", &mut fails, false);
                },
                3 | 4 | 5 | 6 => {
                    let k = key(&mut u);
                    let before = c.peek_entry(k.as_str()).map(|(kk, vv)| (entry_size(kk, vv), ()));
                    let max = c.max_size();
                    let mut after_size = None;
                    let uu = &mut u;
                    let r = c.mutate(k.as_str(), |v| { v.mutate(uu); after_size = Some(v.mem_size()); 1u8 });
                    match (before, r) {
                        (None, Ok(None)) => { },
                        (None, _) => fails.push(MemFailure { tags: vec!["C11"], sig: format!("std-mutate-absent:{}", V::name()), msg: format!("[{}] mutate of an absent key did not return Ok(None)", V::name()) }),
                        (Some((old, _)), Ok(Some(1))) => {
                            // the entry stayed: it must fit
                            let now = c.peek_entry(k.as_str()).map(|(kk, vv)| entry_size(kk, vv));
                            match now {
                                Some(n) if n <= max => { if n != old { ev("mutate.resized"); } },
                                Some(n) => fails.push(MemFailure { tags: vec!["C11", "C01"], sig: format!("std-mutate-overflow-kept:{}", V::name()),
                                    msg: format!("[{}] mutate returned Ok and kept an entry of size {} (before {}) although max_size is {}", V::name(), n, old, max) }),
                                None => fails.push(MemFailure { tags: vec!["C11", "C03"], sig: format!("std-mutate-lost:{}", V::name()), msg: format!("[{}] mutate returned Ok but the entry is gone", V::name()) }),
                            }
                        },
                        (Some((old, _)), Err(MutateError::EntryTooLarge { key: ek, value: ev_, old_entry_size, new_entry_size, max_size })) => {
                            let real_new = entry_size(&ek, &ev_);
                            if !(real_new > max && new_entry_size == real_new && old_entry_size == old && max_size == max) {
                                fails.push(MemFailure { tags: vec!["C11"], sig: format!("std-mutate-err:{}", V::name()),
                                    msg: format!("[{}] EntryTooLarge {{ old {} new {} max {} }} but the entry measured {} before and {} now, max_size {}", V::name(), old_entry_size, new_entry_size, max_size, old, real_new, max) });
                            }
                            if c.contains(k.as_str()) {
                                fails.push(MemFailure { tags: vec!["C11"], sig: format!("std-mutate-err-kept:{}", V::name()), msg: format!("[{}] EntryTooLarge but the entry is still cached", V::name()) });
                            }
                            ev("mutate.overflow");
                        },
                        (Some(_), other) => fails.push(MemFailure { tags: vec!["C11"], sig: format!("std-mutate-ret:{}", V::name()), msg: format!("[{}] mutate of a present key returned {:?}", V::name(), other.map(|_| ()).map_err(|_| ())) }),
                    }
                    let _ = after_size;
                    ev("mutate");
                    check(&c, "mutate", &mut fails, true);
                },
                7 => { let k = key(&mut u); let _ = c.remove(k.as_str()); ev("remove"); check(&c, "remove", &mut fails, false); },
                8 => {
                    let m = match int(&mut u, 0, 3) { 0 => c.current_size(), 1 => c.current_size() / 2, 2 => usize::MAX, _ => 1200 };
                    c.set_max_size(m);
                    ev("set_max_size");
                    check(&c, "set_max_size", &mut fails, false);
                },
                _ => {
                    let k = key(&mut u);
                    let _ = c.get(k.as_str());
                    ev("get");
                    check(&c, "get", &mut fails, false);
                },
            }
        }
        drop(ev);
    }));
    if let Err(p) = r {
        fails.push(MemFailure { tags: vec!["C02", "C01", "C11", "C07"], sig: format!("std-panic:{}", V::name()),
            msg: format!("[{}] panicked: {}", V::name(), crate::tracked::panic_message(&*p)) });
    }
    StdOutcome { fails, steps, events }
}

pub fn run_stdvals(ty: &str, bytes: &[u8]) -> Option<StdOutcome> {
    Some(match ty {
        "String" => run_type::<String>(bytes),
        "Vec<String>" => run_type::<Vec<String>>(bytes),
        "Option<Box<[u8; 96]>>" => run_type::<Option<Box<[u8; 96]>>>(bytes),
        "(Option<Box<u64>>, [Option<String>; 2])" => run_type::<(Option<Box<u64>>, [Option<String>; 2])>(bytes),
        "Result<Vec<u8>, Box<str>>" => run_type::<Result<Vec<u8>, Box<str>>>(bytes),
        "Mutex<Vec<u16>>" => run_type::<Mutex<Vec<u16>>>(bytes),
        "Box<Vec<Box<[u32]>>>" => run_type::<Box<Vec<Box<[u32]>>>>(bytes),
        _ => return None,
    })
}
