//! Caches of more than 2^16 entries. The operation language has 16-bit keys,
//! so thresholds that only exist beyond 65 536 entries (16-bit indices,
//! batch sizes, capped scratch buffers, the table sizes 2^17 and 2^18) are out
//! of its reach. This engine runs generated scripts of *bulk* steps over
//! `LruCache<u32, DVal, VHasher>` against a `VecDeque` model and judges the
//! whole state after every step: contents, order, per-key lookups, sizes,
//! structure (hook), capacity bounds, clone equality and independence, and
//! drop-exactly-once through a live-object counter.

use std::cell::Cell;
use std::collections::{HashMap, VecDeque};
use std::panic::{catch_unwind, AssertUnwindSafe};

use lru_mem::{HeapSize, LruCache};

use crate::hashers::{HKind, VHasher};
use crate::shapes::MemFailure;

thread_local! {
    static LIVE: Cell<i64> = const { Cell::new(0) };
    static DROPS: Cell<u64> = const { Cell::new(0) };
    static DOUBLE: Cell<u64> = const { Cell::new(0) };
}

/// Drop-counting value: `alive` is cleared by the destructor, so that a second
/// drop of the same object is noticed (the object owns no memory, a second
/// drop is therefore not itself undefined behaviour for the harness).
pub struct DVal {
    pub v: u32,
    pub heap: u32,
    alive: u32,
}

const ALIVE: u32 = 0xA11F_E001;

impl DVal {
    pub fn new(v: u32, heap: u32) -> DVal {
        LIVE.with(|c| c.set(c.get() + 1));
        DVal { v, heap, alive: ALIVE }
    }
}

impl Clone for DVal {
    fn clone(&self) -> DVal {
        DVal::new(self.v, self.heap)
    }
}

impl Drop for DVal {
    fn drop(&mut self) {
        if self.alive != ALIVE {
            DOUBLE.with(|c| c.set(c.get() + 1));
            return;
        }
        self.alive = 0;
        LIVE.with(|c| c.set(c.get() - 1));
        DROPS.with(|c| c.set(c.get() + 1));
    }
}

impl HeapSize for DVal {
    fn heap_size(&self) -> usize {
        self.heap as usize
    }
}

type Cache = LruCache<u32, DVal, VHasher>;

#[derive(Clone, Debug, PartialEq, Eq)]
pub enum Step {
    /// insert `n` fresh keys
    Fill(u32),
    Reserve(u32),
    /// try_reserve with the allocator refusing the table
    TryReserveRefused(u32),
    ShrinkToFit,
    ShrinkTo(u32),
    /// clone, compare, continue on the clone, then drop the source
    CloneSwap,
    /// clone, compare, mutate the clone, compare the source, drop the clone
    CloneCheck,
    /// remove every key with key % m == r
    RemoveMod(u32, u32),
    /// retain keys with key % m != r
    RetainMod(u32, u32),
    /// get (promote) every key with key % m == r, in key order
    GetMod(u32, u32),
    /// lower the limit so that about 1/d of the entries are evicted, then lift it again
    EvictFraction(u32),
    /// re-insert (replace) every key with key % m == r
    ReplaceMod(u32, u32),
    /// drain, consuming `front` from the front and `back` from the back, then drop
    Drain(u32, u32),
    /// into_iter over a clone, consuming from both ends
    IntoIterClone(u32, u32),
    /// grow one value so that about 1/d of the entries are evicted by a single mutate
    MutateEvict(u32),
    /// Twin differential over a long invalidation history: a clone of the cache
    /// and the cache itself get the same history - remove one key, then `n`
    /// rounds of insert + remove of a scratch key, with no successful lookup in
    /// between - except that the cache first answers one `contains(key)` through
    /// a shared reference. A shared-reference operation changes nothing, so the
    /// twins must answer alike ever after (and the removed key stays absent).
    /// `n` crosses 2^16: counters of that width wrap.
    TwinChurn(u32),
}

impl Step {
    pub fn to_text(&self) -> String {
        match self {
            Step::Fill(n) => format!("fill:{}", n),
            Step::Reserve(n) => format!("reserve:{}", n),
            Step::TryReserveRefused(n) => format!("try_reserve_refused:{}", n),
            Step::ShrinkToFit => "shrink_to_fit".into(),
            Step::ShrinkTo(n) => format!("shrink_to:{}", n),
            Step::CloneSwap => "clone_swap".into(),
            Step::CloneCheck => "clone_check".into(),
            Step::RemoveMod(m, r) => format!("remove_mod:{}:{}", m, r),
            Step::RetainMod(m, r) => format!("retain_mod:{}:{}", m, r),
            Step::GetMod(m, r) => format!("get_mod:{}:{}", m, r),
            Step::EvictFraction(d) => format!("evict_fraction:{}", d),
            Step::ReplaceMod(m, r) => format!("replace_mod:{}:{}", m, r),
            Step::Drain(a, b) => format!("drain:{}:{}", a, b),
            Step::IntoIterClone(a, b) => format!("into_iter_clone:{}:{}", a, b),
            Step::MutateEvict(d) => format!("mutate_evict:{}", d),
            Step::TwinChurn(n) => format!("twin_churn:{}", n),
        }
    }

    pub fn from_text(s: &str) -> Option<Step> {
        let p: Vec<&str> = s.split(':').collect();
        let n = |i: usize| -> Option<u32> { p.get(i)?.parse().ok() };
        Some(match p[0] {
            "fill" => Step::Fill(n(1)?),
            "reserve" => Step::Reserve(n(1)?),
            "try_reserve_refused" => Step::TryReserveRefused(n(1)?),
            "shrink_to_fit" => Step::ShrinkToFit,
            "shrink_to" => Step::ShrinkTo(n(1)?),
            "clone_swap" => Step::CloneSwap,
            "clone_check" => Step::CloneCheck,
            "remove_mod" => Step::RemoveMod(n(1)?.max(1), n(2)?),
            "retain_mod" => Step::RetainMod(n(1)?.max(1), n(2)?),
            "get_mod" => Step::GetMod(n(1)?.max(1), n(2)?),
            "evict_fraction" => Step::EvictFraction(n(1)?.max(1)),
            "replace_mod" => Step::ReplaceMod(n(1)?.max(1), n(2)?),
            "drain" => Step::Drain(n(1)?, n(2)?),
            "into_iter_clone" => Step::IntoIterClone(n(1)?, n(2)?),
            "mutate_evict" => Step::MutateEvict(n(1)?.max(1)),
            "twin_churn" => Step::TwinChurn(n(1)?),
            _ => return None,
        })
    }
}

#[derive(Clone, Debug)]
pub struct HugeCase {
    pub hasher: HKind,
    pub capacity: Option<u32>,
    pub steps: Vec<Step>,
}

impl HugeCase {
    pub fn to_text(&self) -> String {
        format!("huge hasher={} capacity={} steps={}\n", self.hasher.to_text(),
            self.capacity.map(|c| c.to_string()).unwrap_or_else(|| "none".into()),
            self.steps.iter().map(|s| s.to_text()).collect::<Vec<_>>().join(","))
    }

    pub fn from_text(text: &str) -> Option<HugeCase> {
        let line = text.lines().find(|l| l.starts_with("huge "))?;
        let get = |k: &str| line.split_whitespace().find_map(|x| x.strip_prefix(k));
        let hasher = HKind::from_text(get("hasher=")?)?;
        let capacity = match get("capacity=")? { "none" => None, c => Some(c.parse().ok()?) };
        let steps = get("steps=")?.split(',').filter(|s| !s.is_empty()).map(Step::from_text).collect::<Option<Vec<_>>>()?;
        Some(HugeCase { hasher, capacity, steps })
    }
}

fn splitmix(z: &mut u64) -> u64 {
    *z = z.wrapping_add(0x9E37_79B9_7F4A_7C15);
    let mut x = *z;
    x = (x ^ (x >> 30)).wrapping_mul(0xBF58_476D_1CE4_E5B9);
    x = (x ^ (x >> 27)).wrapping_mul(0x94D0_49BB_1331_11EB);
    x ^ (x >> 31)
}

/// Sizes around the places where something changes: 2^16, the growth
/// triggers 7/8 * 2^17 and 7/8 * 2^18, 2^17.
const SIZES: [u32; 12] = [65_530, 65_536, 65_537, 65_600, 70_000, 98_304, 114_687, 114_688, 114_689, 131_072, 131_073, 140_000];

/// A case from a seed (the seed comes out of the proptest runner).
pub fn case_from_seed(seed: u64, long: bool) -> HugeCase {
    let mut z = seed;
    let hasher = [HKind::Fx, HKind::Identity, HKind::Sip, HKind::Fx, HKind::Reseed][(splitmix(&mut z) % 5) as usize];
    let n = SIZES[(splitmix(&mut z) % SIZES.len() as u64) as usize];
    let capacity = match splitmix(&mut z) % 4 { 0 => Some(n), 1 => Some(0), 2 => Some(n / 2), _ => None };
    let mut steps = vec![Step::Fill(n)];
    let count = if long { 10 } else { 5 };
    for _ in 0..count {
        let r = splitmix(&mut z);
        let a = (r >> 8) as u32;
        let m = 2 + (r >> 40) as u32 % 9;
        steps.push(match r % 19 {
            0 | 1 => Step::Reserve(1 + a % 200_000),
            2 => Step::TryReserveRefused(1_000 + a % 300_000),
            3 | 4 => Step::ShrinkToFit,
            5 => Step::ShrinkTo(a % 200_000),
            6 | 7 => Step::CloneSwap,
            8 => Step::CloneCheck,
            9 => Step::RemoveMod(m, a % m),
            10 => Step::RetainMod(m, a % m),
            11 => Step::GetMod(m, a % m),
            12 => Step::EvictFraction(2 + a % 5),
            13 => Step::ReplaceMod(m, a % m),
            14 => Step::Drain(a % 70_000, (a >> 3) % 70_000),
            15 => Step::IntoIterClone(a % 70_000, (a >> 3) % 70_000),
            16 => Step::MutateEvict(2 + a % 5),
            17 => Step::TwinChurn(65_530 + a % 1_100),
            _ => Step::Fill(1 + a % 70_000),
        });
    }
    // every script ends with the long invalidation history (it is cheap)
    if !steps.iter().any(|s| matches!(s, Step::TwinChurn(_))) {
        let extra = (splitmix(&mut z) % 1_100) as u32;
        steps.push(Step::TwinChurn(65_530 + extra));
    }
    HugeCase { hasher, capacity, steps }
}

struct World {
    cache: Cache,
    order: VecDeque<(u32, u32)>,
    index: HashMap<u32, u32>,
    next_key: u32,
    e0: usize,
    peak: usize,
    requested: usize,
    fails: Vec<MemFailure>,
    pub checks: u64,
}

/// The capacity hashbrown gives a fresh table for a request (it depends on
/// the request only, so a zero-sized element type serves).
fn fresh_capacity(n: usize) -> usize {
    hashbrown::raw::RawTable::<()>::with_capacity(n).capacity()
}

impl World {
    fn fail(&mut self, tags: Vec<&'static str>, sig: &str, msg: String) {
        self.fails.push(MemFailure { tags, sig: sig.to_string(), msg });
    }

    fn value_of(k: u32) -> u32 {
        k.wrapping_mul(2_654_435_761).rotate_left(7)
    }

    /// Full comparison of the cache with the model.
    fn check(&mut self, after: &str) {
        self.checks += 1;
        let len = self.cache.len();
        let want_len = self.order.len();
        if len != want_len {
            self.fail(vec!["C04", "C02", "C07"], "huge-len", format!("after {}: len() = {} but {} entries are expected", after, len, want_len));
            return;
        }
        match self.cache.verif_structure() {
            Err(e) => { self.fail(vec!["C07", "C04", "C05"], "huge-structure", format!("after {}: structure walk failed: {}", after, e)); return; },
            Ok(s) => {
                let rec: u128 = s.sizes.iter().map(|&x| x as u128).sum();
                if rec != self.cache.current_size() as u128 {
                    self.fail(vec!["C02"], "huge-sum-recorded", format!("after {}: current_size {} but recorded sizes sum to {}", after, self.cache.current_size(), rec));
                }
            },
        }
        let cur = self.cache.current_size();
        if cur != self.e0 * len {
            self.fail(vec!["C02"], "huge-size", format!("after {}: current_size {} but {} entries of size {} are held", after, cur, len, self.e0));
        }
        if cur > self.cache.max_size() {
            self.fail(vec!["C01"], "huge-bound", format!("after {}: current_size {} exceeds max_size {}", after, cur, self.cache.max_size()));
        }
        // contents and order, front to back
        let mut n = 0usize;
        let mut first_bad: Option<String> = None;
        let mut set_differs = false;
        for ((k, v), (mk, mv)) in self.cache.iter().zip(self.order.iter()) {
            if (*k, v.v) != (*mk, *mv) && first_bad.is_none() {
                set_differs = !self.index.contains_key(k);
                first_bad = Some(format!("position {}: cache has ({}, {}), expected ({}, {})", n, k, v.v, mk, mv));
            }
            n += 1;
            if n > want_len { break; }
        }
        if n != want_len {
            self.fail(vec!["C07", "C04", "C12"], "huge-iter-len", format!("after {}: iter() yields {} entries, len() = {}", after, n, len));
            return;
        }
        if let Some(b) = first_bad {
            let sorted_same = {
                let mut a: Vec<u32> = self.cache.keys().copied().collect();
                a.sort_unstable();
                let mut b: Vec<u32> = self.order.iter().map(|e| e.0).collect();
                b.sort_unstable();
                a == b
            };
            if sorted_same && !set_differs {
                self.fail(vec!["C05"], "huge-order", format!("after {}: recency order differs at {}", after, b));
            }
            else {
                self.fail(vec!["C04"], "huge-contents", format!("after {}: contents differ at {}", after, b));
            }
            return;
        }
        // back to front
        let mut m = 0usize;
        for ((k, _), (mk, _)) in self.cache.iter().rev().zip(self.order.iter().rev()) {
            if k != mk {
                self.fail(vec!["C07", "C05"], "huge-mirror", format!("after {}: reverse traversal differs {} from the back: {} vs {}", after, m, k, mk));
                return;
            }
            m += 1;
        }
        if m != want_len {
            self.fail(vec!["C07", "C12"], "huge-rev-len", format!("after {}: iter().rev() yields {} entries, len() = {}", after, m, len));
            return;
        }
        // every key is found, with its value, at the traversed address
        let mut missing = None;
        for (k, v) in self.cache.iter() {
            match self.cache.peek_entry(k) {
                Some((k2, v2)) if std::ptr::eq(k, k2) && std::ptr::eq(v, v2) => { },
                Some(_) => { missing = Some(format!("peek_entry({}) finds another entry than the traversal", k)); break; },
                None => { missing = Some(format!("traversed key {} is not found by peek_entry", k)); break; },
            }
        }
        if let Some(msg) = missing {
            self.fail(vec!["C04", "C07"], "huge-lookup", format!("after {}: {}", after, msg));
            return;
        }
        // a few absent keys
        for d in 0..8u32 {
            let k = self.next_key + 1 + d * 7919;
            if self.cache.contains(&k) {
                self.fail(vec!["C04"], "huge-phantom", format!("after {}: contains({}) for a key never inserted", after, k));
            }
        }
        if let (Some((k, _)), Some((mk, _))) = (self.cache.peek_lru(), self.order.front()) {
            if k != mk { self.fail(vec!["C05"], "huge-peek-lru", format!("after {}: peek_lru is {} but the oldest is {}", after, k, mk)); }
        }
        if let (Some((k, _)), Some((mk, _))) = (self.cache.peek_mru(), self.order.back()) {
            if k != mk { self.fail(vec!["C05"], "huge-peek-mru", format!("after {}: peek_mru is {} but the newest is {}", after, k, mk)); }
        }
        // capacity: bounded by what growth from the peak or an explicit request gives
        self.peak = self.peak.max(len);
        let cap = self.cache.capacity();
        let bound = fresh_capacity(2 * self.peak).max(15).max(self.requested);
        if cap > bound {
            self.fail(vec!["C13"], "huge-capacity-unbounded", format!("after {}: capacity {} with peak length {} and largest request {}", after, cap, self.peak, self.requested));
        }
        if cap < len {
            self.fail(vec!["C13"], "huge-capacity-below-len", format!("after {}: capacity {} < len {}", after, cap, len));
        }
    }

    fn push_model(&mut self, k: u32, v: u32) {
        self.order.push_back((k, v));
        self.index.insert(k, v);
    }

    fn remove_model(&mut self, pred: impl Fn(u32) -> bool) -> usize {
        let before = self.order.len();
        self.order.retain(|e| !pred(e.0));
        self.index.retain(|k, _| !pred(*k));
        before - self.order.len()
    }

    fn step(&mut self, s: &Step) {
        let name = s.to_text();
        match *s {
            Step::Fill(n) => {
                for _ in 0..n {
                    let k = self.next_key;
                    self.next_key += 1;
                    let v = Self::value_of(k);
                    let cap_before = self.cache.capacity();
                    let len_before = self.cache.len();
                    let tid = self.cache.verif_table_identity();
                    crate::hashers::reset_builds();
                    let r = self.cache.insert(k, DVal::new(v, 0));
                    let hashes = crate::hashers::builds() as usize;
                    let rebuilt = self.cache.verif_table_identity() != tid;
                    if rebuilt {
                        // automatic growth: the smallest table holding twice the entries, each held entry hashed once
                        let want = fresh_capacity((2 * len_before).max(1));
                        let cap = self.cache.capacity();
                        if cap != want {
                            self.fail(vec!["C13"], "huge-growth-size", format!("an insertion with {} entries held (capacity {}) rebuilt the table to capacity {}; the smallest table holding twice the entries has capacity {}", len_before, cap_before, cap, want));
                            return;
                        }
                        if hashes > 2 + len_before {
                            self.fail(vec!["C20"], "huge-hashes-rebuild", format!("a growing insertion with {} entries held computed {} key hashes", len_before, hashes));
                            return;
                        }
                    }
                    else {
                        // (capacity() may rise by one without a rebuild: an insertion that reuses a
                        // tombstone gives back the growth budget the removal had taken)
                        if hashes > 2 {
                            self.fail(vec!["C20"], "huge-hashes", format!("an insertion that neither evicts nor grows computed {} key hashes (len {})", hashes, len_before));
                            return;
                        }
                    }
                    match r {
                        Ok(None) => { },
                        Ok(Some(_)) => { self.fail(vec!["C04"], "huge-insert-phantom", format!("insert of the fresh key {} returned an old value", k)); return; },
                        Err(_) => { self.fail(vec!["C10"], "huge-insert-err", format!("insert of key {} failed", k)); return; },
                    }
                    self.push_model(k, v);
                }
            },
            Step::Reserve(n) => {
                self.cache.reserve(n as usize);
                let need = self.order.len() + n as usize;
                self.requested = self.requested.max(fresh_capacity(need));
                if self.cache.capacity() < need {
                    self.fail(vec!["C13"], "huge-reserve-short", format!("reserve({}) left capacity {} < len + additional {}", n, self.cache.capacity(), need));
                }
            },
            Step::TryReserveRefused(n) => {
                let need = self.order.len() + n as usize;
                let before = self.cache.verif_fingerprint();
                let will_rebuild = self.cache.capacity() < need;
                crate::alloc::fail_next_ge(need * 8);
                let r = self.cache.try_reserve(n as usize);
                // disarm() tells whether the refusal is still pending (nothing that large was requested)
                let fired = !crate::alloc::disarm() && crate::alloc_installed();
                match r {
                    Ok(()) => {
                        if fired {
                            self.fail(vec!["C13"], "huge-refusal-swallowed", format!("try_reserve({}) returned Ok although the allocator refused", n));
                        }
                        self.requested = self.requested.max(fresh_capacity(need));
                    },
                    Err(_) => {
                        if !fired || !will_rebuild {
                            self.fail(vec!["C13"], "huge-try_reserve-spurious", format!("try_reserve({}) failed without a refusal", n));
                        }
                        if self.cache.verif_fingerprint() != before {
                            self.fail(vec!["C13"], "huge-try_reserve-changed", format!("a failing try_reserve({}) changed the cache", n));
                        }
                    },
                }
            },
            Step::ShrinkToFit | Step::ShrinkTo(_) => {
                let before = self.cache.capacity();
                let floor = match *s { Step::ShrinkTo(m) => (m as usize).max(self.order.len()), _ => self.order.len() };
                match *s { Step::ShrinkTo(m) => self.cache.shrink_to(m as usize), _ => self.cache.shrink_to_fit() }
                let after = self.cache.capacity();
                if after > before {
                    self.fail(vec!["C13"], "huge-shrink-raised", format!("{} raised the capacity from {} to {}", name, before, after));
                }
                if before >= floor && after < floor {
                    self.fail(vec!["C13"], "huge-shrink-below", format!("{} left capacity {} below {}", name, after, floor));
                }
            },
            Step::CloneSwap | Step::CloneCheck => {
                let before = self.cache.verif_fingerprint();
                let mut cl = self.cache.clone();
                if self.cache.verif_fingerprint() != before {
                    self.fail(vec!["C19", "C14"], "huge-clone-wrote", "clone() changed its source".to_string());
                }
                if cl.capacity() < self.cache.capacity() || cl.current_size() != self.cache.current_size() || cl.max_size() != self.cache.max_size() || cl.len() != self.cache.len() {
                    self.fail(vec!["C14"], "huge-clone-scalars", format!("clone: len {} size {} capacity {} vs source {} {} {}",
                        cl.len(), cl.current_size(), cl.capacity(), self.cache.len(), self.cache.current_size(), self.cache.capacity()));
                }
                if matches!(s, Step::CloneSwap) {
                    std::mem::swap(&mut self.cache, &mut cl);
                    // the former source goes away; the clone must be unaffected (checked below)
                    drop(cl);
                    let nf = self.fails.len();
                    self.check("clone_swap (on the clone)");
                    for f in self.fails.iter_mut().skip(nf) { if !f.tags.contains(&"C14") { f.tags.push("C14"); } }
                    return;
                }
                else {
                    // use the clone, then look at the source again
                    let ks: Vec<u32> = cl.keys().take(1000).copied().collect();
                    for k in ks.iter().step_by(2) { cl.remove(k); }
                    for k in ks.iter().skip(1).step_by(2) { cl.touch(k); }
                    let _ = cl.insert(u32::MAX, DVal::new(1, 0));
                    cl.shrink_to_fit();
                    drop(cl);
                    let nf = self.fails.len();
                    self.check("clone_check (source after the clone was used and dropped)");
                    for f in self.fails.iter_mut().skip(nf) { if !f.tags.contains(&"C14") { f.tags.push("C14"); } }
                    return;
                }
            },
            Step::RemoveMod(m, r) => {
                let keys: Vec<u32> = self.order.iter().map(|e| e.0).filter(|k| k % m == r).collect();
                for k in &keys {
                    let want = self.index.get(k).copied();
                    match self.cache.remove(k) {
                        Some(v) if Some(v.v) == want => { },
                        Some(v) => { self.fail(vec!["C04"], "huge-remove-value", format!("remove({}) returned value {}", k, v.v)); return; },
                        None => { self.fail(vec!["C04"], "huge-remove-missed", format!("remove({}) did not find the key", k)); return; },
                    }
                }
                self.remove_model(|k| k % m == r);
            },
            Step::RetainMod(m, r) => {
                let mut visited = 0usize;
                let mut in_order = true;
                let mut it = self.order.iter();
                self.cache.retain(|k, _| {
                    visited += 1;
                    if it.next().map(|e| e.0) != Some(*k) { in_order = false; }
                    k % m != r
                });
                if visited != self.order.len() || !in_order {
                    self.fail(vec!["C15"], "huge-retain-visits", format!("retain visited {} of {} entries, in order: {}", visited, self.order.len(), in_order));
                }
                self.remove_model(|k| k % m == r);
                let nf = self.fails.len();
                self.check(&name);
                for f in self.fails.iter_mut().skip(nf) { if !f.tags.contains(&"C15") { f.tags.push("C15"); } }
                return;
            },
            Step::GetMod(m, r) => {
                let keys: Vec<(u32, u32)> = self.order.iter().copied().filter(|e| e.0 % m == r).collect();
                for (k, v) in &keys {
                    let got = self.cache.get(k).map(|x| x.v);
                    if got != Some(*v) {
                        self.fail(vec!["C04"], "huge-get", format!("get({}) = {:?}, expected {}", k, got, v));
                        return;
                    }
                }
                self.order.retain(|e| e.0 % m != r);
                for e in keys { self.order.push_back(e); }
            },
            Step::EvictFraction(d) => {
                let len = self.order.len();
                let keep = len - len / d as usize;
                self.cache.set_max_size(keep * self.e0 + self.e0 / 2);
                for _ in 0..(len - keep) {
                    if let Some((k, _)) = self.order.pop_front() { self.index.remove(&k); }
                }
                let nf = self.fails.len();
                self.check(&name);
                for f in self.fails.iter_mut().skip(nf) { if !f.tags.contains(&"C03") { f.tags.push("C03"); } }
                self.cache.set_max_size(usize::MAX);
                return;
            },
            Step::ReplaceMod(m, r) => {
                let keys: Vec<u32> = self.order.iter().map(|e| e.0).filter(|k| k % m == r).collect();
                for k in &keys {
                    let nv = Self::value_of(*k).wrapping_add(1);
                    match self.cache.insert(*k, DVal::new(nv, 0)) {
                        Ok(Some(_)) => { },
                        _ => { self.fail(vec!["C04"], "huge-replace", format!("insert of the present key {} did not return the old value", k)); return; },
                    }
                }
                self.order.retain(|e| e.0 % m != r);
                for k in keys {
                    let nv = Self::value_of(k).wrapping_add(1);
                    self.order.push_back((k, nv));
                    self.index.insert(k, nv);
                }
            },
            Step::Drain(a, b) => {
                let len = self.order.len();
                let (a, b) = ((a as usize).min(len), (b as usize).min(len));
                let mut ok = true;
                {
                    // all calls from the front come first, then those from the back
                    let mut it = self.cache.drain();
                    for i in 0..a {
                        let want = self.order.get(i).copied();
                        let got = it.next().map(|(k, v)| (k, v.v));
                        if got != want { ok = false; break; }
                    }
                    for j in 0..b {
                        let want = if a + j < len { self.order.get(len - 1 - j).copied() } else { None };
                        let got = it.next_back().map(|(k, v)| (k, v.v));
                        if got != want { ok = false; break; }
                    }
                }
                if !ok {
                    self.fail(vec!["C12"], "huge-drain-seq", format!("drain over {} entries ({} from the front, {} from the back) yielded the wrong entries", len, a, b));
                }
                self.order.clear();
                self.index.clear();
                let nf = self.fails.len();
                self.check(&name);
                for f in self.fails.iter_mut().skip(nf) { if !f.tags.contains(&"C12") { f.tags.push("C12"); } }
                if self.cache.current_size() != 0 || !self.cache.is_empty() {
                    self.fail(vec!["C12", "C02"], "huge-drain-not-empty", "after dropping the drain the cache is not empty".into());
                }
                return;
            },
            Step::IntoIterClone(a, b) => {
                let cl = self.cache.clone();
                let len = self.order.len();
                let (a, b) = ((a as usize).min(len), (b as usize).min(len - (a as usize).min(len)));
                let mut it = cl.into_iter();
                let mut ok = true;
                for i in 0..a {
                    if it.next().map(|(k, v)| (k, v.v)) != self.order.get(i).copied() { ok = false; break; }
                }
                for j in 0..b {
                    if it.next_back().map(|(k, v)| (k, v.v)) != self.order.get(len - 1 - j).copied() { ok = false; break; }
                }
                drop(it);
                if !ok {
                    self.fail(vec!["C12", "C14"], "huge-into-iter-seq", format!("into_iter over a clone of {} entries yielded the wrong entries", len));
                }
            },
            Step::TwinChurn(n) => {
                let (k0, v0) = match self.order.front() { Some(e) => *e, None => return };
                let mut twin = self.cache.clone();
                // the one difference between the twins: a successful lookup through &self
                let probe: &Cache = &self.cache;
                if !probe.contains(&k0) || probe.peek(&k0).map(|v| v.v) != Some(v0) {
                    self.fail(vec!["C04"], "huge-twin-lookup", format!("contains/peek({}) do not find the oldest entry", k0));
                    return;
                }
                let (a, b) = (self.cache.remove(&k0).map(|v| v.v), twin.remove(&k0).map(|v| v.v));
                if a != Some(v0) || b != Some(v0) {
                    self.fail(vec!["C04"], "huge-twin-remove", format!("remove({}) returned {:?} / {:?}", k0, a, b));
                    return;
                }
                self.order.pop_front();
                self.index.remove(&k0);
                let scratch = [u32::MAX - 1, u32::MAX - 2, u32::MAX - 3];
                for r in 0..n {
                    let s = scratch[(r % 3) as usize];
                    let _ = self.cache.insert(s, DVal::new(r, 0));
                    let _ = twin.insert(s, DVal::new(r, 0));
                    let (x, y) = (self.cache.remove(&s).map(|v| v.v), twin.remove(&s).map(|v| v.v));
                    let (p, q) = (self.cache.peek(&k0).map(|v| v.v), twin.peek(&k0).map(|v| v.v));
                    if x != y || p != q {
                        self.fail(vec!["C19", "C04"], "huge-twins-diverge", format!("round {} after removing key {}: the cache that once answered contains({}) through &self now answers remove/peek {:?}/{:?}, its twin {:?}/{:?}", r, k0, k0, x, p, y, q));
                        return;
                    }
                    if p.is_some() || x != Some(r) {
                        self.fail(vec!["C04"], "huge-stale-lookup", format!("round {} after removing key {}: peek finds {:?}, removing the scratch key returned {:?}", r, k0, p, x));
                        return;
                    }
                }
                drop(twin);
            },
            Step::MutateEvict(d) => {
                let len = self.order.len();
                if len < 4 { return; }
                let evict = len / d as usize;
                // the most-recently-used entry grows by `evict` entries' worth
                let (k, _) = *self.order.back().unwrap();
                self.cache.set_max_size(len * self.e0);
                let grow = (evict * self.e0) as u32;
                match self.cache.mutate(&k, |v| { v.heap = grow; 9u8 }) {
                    Ok(Some(9)) => { },
                    other => { self.fail(vec!["C11"], "huge-mutate-ret", format!("mutate returned {:?}", other.map(|_| ()).map_err(|_| ()))); return; },
                }
                for _ in 0..evict {
                    if let Some((k, _)) = self.order.pop_front() { self.index.remove(&k); }
                }
                // sizes are no longer uniform: judge contents and order, then restore
                let cur = self.cache.current_size();
                let want = self.order.len() * self.e0 + grow as usize;
                if cur != want {
                    self.fail(vec!["C11", "C02", "C03"], "huge-mutate-size", format!("after a mutate that had to evict {} entries current_size is {} instead of {}", evict, cur, want));
                }
                let _ = self.cache.mutate(&k, |v| { v.heap = 0; });
                self.cache.set_max_size(usize::MAX);
                let nf = self.fails.len();
                self.check(&name);
                for f in self.fails.iter_mut().skip(nf) { if !f.tags.contains(&"C11") { f.tags.push("C11"); } if !f.tags.contains(&"C03") { f.tags.push("C03"); } }
                return;
            },
        }
        if self.fails.is_empty() {
            self.check(&name);
        }
    }
}

pub struct HugeOutcome {
    pub fails: Vec<MemFailure>,
    pub checks: u64,
    pub entries_peak: usize,
}

pub fn run_huge(case: &HugeCase) -> HugeOutcome {
    LIVE.with(|c| c.set(0));
    DROPS.with(|c| c.set(0));
    DOUBLE.with(|c| c.set(0));
    crate::hashers::reset_clones();
    let r = catch_unwind(AssertUnwindSafe(|| {
        let hasher = VHasher::new(case.hasher);
        let cache: Cache = match case.capacity {
            None => LruCache::with_hasher(usize::MAX, hasher),
            Some(c) => LruCache::with_capacity_and_hasher(usize::MAX, c as usize, hasher),
        };
        let e0 = lru_mem::entry_size(&0u32, &DVal::new(0, 0));
        let requested = case.capacity.map(|c| fresh_capacity(c as usize)).unwrap_or(0).max(cache.capacity());
        let mut w = World { cache, order: VecDeque::new(), index: HashMap::new(), next_key: 0, e0, peak: 0, requested, fails: vec![], checks: 0 };
        for s in &case.steps {
            w.step(s);
            if !w.fails.is_empty() { break; }
        }
        let peak = w.peak;
        let World { cache, mut fails, checks, .. } = w;
        if fails.is_empty() {
            drop(cache);
            let live = LIVE.with(|c| c.get());
            let double = DOUBLE.with(|c| c.get());
            if double > 0 {
                fails.push(MemFailure { tags: vec!["C06"], sig: "huge-double-drop".into(), msg: format!("{} values were dropped twice", double) });
            }
            else if live != 0 {
                fails.push(MemFailure { tags: vec!["C06"], sig: "huge-leak".into(), msg: format!("{} values are unaccounted for after everything was dropped (positive: never dropped)", live) });
            }
        }
        else {
            std::mem::forget(cache);
        }
        HugeOutcome { fails, checks, entries_peak: peak }
    }));
    match r {
        Ok(o) => o,
        Err(p) => HugeOutcome {
            fails: vec![MemFailure { tags: vec!["C07", "C04", "C02", "C13"], sig: "huge-panic".into(),
                msg: format!("panicked: {}", crate::tracked::panic_message(&*p)) }],
            checks: 0, entries_peak: 0,
        },
    }
}
