//! C18: generated Rust probe programs judged by rustc. Two crates (trait
//! probes / borrow probes; borrow checking only runs once type checking
//! passes, so they are separate), `cargo check --message-format=json`,
//! diagnostics mapped back to probes by line.

use std::collections::BTreeMap;
use std::path::{Path, PathBuf};
use std::process::Command;

use serde_json::Value;

#[derive(Clone, Debug)]
pub struct Probe {
    pub id: String,
    pub krate: &'static str,
    pub expect_reject: bool,
    /// acceptable error codes for an expected rejection
    pub codes: Vec<&'static str>,
    /// text that one of the error messages must contain (witness type)
    pub must_mention: Option<String>,
    pub source: String,
    pub line_start: usize,
    pub line_end: usize,
}

#[derive(Clone, Debug)]
pub struct ProbeResult {
    pub probe: Probe,
    pub errors: Vec<(String, String)>,
    pub ok: bool,
    pub why: String,
}

struct Rng(u64);

impl Rng {
    fn next(&mut self) -> u64 {
        self.0 = self.0.wrapping_add(0x9E37_79B9_7F4A_7C15);
        let mut z = self.0;
        z = (z ^ (z >> 30)).wrapping_mul(0xBF58_476D_1CE4_E5B9);
        z = (z ^ (z >> 27)).wrapping_mul(0x94D0_49BB_1331_11EB);
        z ^ (z >> 31)
    }

    fn pick<'a, T>(&mut self, v: &'a [T]) -> &'a T {
        &v[(self.next() % v.len() as u64) as usize]
    }
}

const NOT_SEND: [(&str, &str); 5] = [
    ("std::rc::Rc<u8>", "Rc<u8>"),
    ("*const u8", "*const u8"),
    ("std::sync::MutexGuard<'static, u8>", "MutexGuard<'static, u8>"),
    ("std::rc::Weak<String>", "Weak<String>"),
    ("std::marker::PhantomData<*mut ()>", "*mut ()"),
];

const NOT_SYNC: [(&str, &str); 5] = [
    ("std::cell::Cell<u8>", "Cell<u8>"),
    ("std::cell::RefCell<String>", "RefCell<String>"),
    ("*mut u8", "*mut u8"),
    ("std::rc::Rc<u8>", "Rc<u8>"),
    ("std::sync::mpsc::Receiver<u8>", "Receiver<u8>"),
];

/// Send but not Sync
const SEND_NOT_SYNC: [&str; 3] = ["std::cell::Cell<u8>", "std::cell::RefCell<String>", "std::sync::mpsc::Receiver<u8>"];
/// Sync but not Send
const SYNC_NOT_SEND: [&str; 1] = ["std::sync::MutexGuard<'static, u8>"];

fn nest(rng: &mut Rng, w: &str, level: u32) -> String {
    let mut t = w.to_string();
    for _ in 0..level {
        t = match rng.next() % 5 {
            0 => format!("Vec<{}>", t),
            1 => format!("(u8, {})", t),
            2 => format!("Option<{}>", t),
            3 => format!("Box<{}>", t),
            _ => format!("[{}; 2]", t),
        };
    }
    t
}

fn instantiate(pos: usize, witness: &str) -> String {
    let good = ["String", "Vec<u8>", "std::collections::hash_map::RandomState"];
    let mut p: Vec<String> = good.iter().map(|s| s.to_string()).collect();
    p[pos] = witness.to_string();
    format!("lru_mem::LruCache<{}, {}, {}>", p[0], p[1], p[2])
}

/// The crate the probe programs are compiled against: /repo, unless a scratch
/// copy is named (used only when seeded changes are evaluated off to the side).
pub fn repo_path() -> std::path::PathBuf {
    std::path::PathBuf::from(std::env::var("VERIF_REPO").unwrap_or_else(|_| "/repo".to_string()))
}

pub fn trait_probes(seed: u64, extra_nestings: usize) -> Vec<Probe> {
    let mut rng = Rng(seed ^ 0x18);
    let mut out = Vec::new();
    let mut add = |id: String, expect_reject: bool, mention: Option<String>, body: String| {
        out.push(Probe {
            id, krate: "traits", expect_reject, codes: vec!["E0277"], must_mention: mention,
            source: body, line_start: 0, line_end: 0,
        });
    };
    // positive, generic: for all type parameters
    add("T-pos-Send-generic".into(), false, None,
        "pub fn probe<K: Send, V: Send, S: Send>() { need_send::<lru_mem::LruCache<K, V, S>>() }".into());
    add("T-pos-Sync-generic".into(), false, None,
        "pub fn probe<K: Sync, V: Sync, S: Sync>() { need_sync::<lru_mem::LruCache<K, V, S>>() }".into());
    add("T-pos-SendSync-generic".into(), false, None,
        "pub fn probe<K: Send + Sync, V: Send + Sync, S: Send + Sync>() { need_send::<lru_mem::LruCache<K, V, S>>(); need_sync::<lru_mem::LruCache<K, V, S>>() }".into());
    add("T-pos-default-hasher".into(), false, None,
        "pub fn probe() { need_send::<lru_mem::LruCache<String, Vec<u8>>>(); need_sync::<lru_mem::LruCache<String, Vec<u8>>>() }".into());
    // generic negative: a parameter without the bound does not give the trait
    for (pos, pname) in ["K", "V", "S"].iter().enumerate() {
        let mut bounds = ["K: Send", "V: Send", "S: Send"].map(|s| s.to_string());
        bounds[pos] = pname.to_string();
        add(format!("T-neg-Send-generic-{}", pname), true, None,
            format!("pub fn probe<{}>() {{ need_send::<lru_mem::LruCache<K, V, S>>() }}", bounds.join(", ")));
        let mut bounds = ["K: Sync", "V: Sync", "S: Sync"].map(|s| s.to_string());
        bounds[pos] = pname.to_string();
        add(format!("T-neg-Sync-generic-{}", pname), true, None,
            format!("pub fn probe<{}>() {{ need_sync::<lru_mem::LruCache<K, V, S>>() }}", bounds.join(", ")));
    }
    // negative matrix: witness in each position
    for (pos, pname) in ["K", "V", "S"].iter().enumerate() {
        for (i, (w, mention)) in NOT_SEND.iter().enumerate() {
            add(format!("T-neg-Send-{}-{}", pname, i), true, Some(mention.to_string()),
                format!("pub fn probe() {{ need_send::<{}>() }}", instantiate(pos, w)));
        }
        for (i, (w, mention)) in NOT_SYNC.iter().enumerate() {
            add(format!("T-neg-Sync-{}-{}", pname, i), true, Some(mention.to_string()),
                format!("pub fn probe() {{ need_sync::<{}>() }}", instantiate(pos, w)));
        }
        // mixed: lacking only the *other* trait keeps this one
        for (i, w) in SEND_NOT_SYNC.iter().enumerate() {
            add(format!("T-pos-Send-despite-notSync-{}-{}", pname, i), false, None,
                format!("pub fn probe() {{ need_send::<{}>() }}", instantiate(pos, w)));
        }
        for (i, w) in SYNC_NOT_SEND.iter().enumerate() {
            add(format!("T-pos-Sync-despite-notSend-{}-{}", pname, i), false, None,
                format!("pub fn probe() {{ need_sync::<{}>() }}", instantiate(pos, w)));
        }
        // random nestings of witnesses
        for n in 0..extra_nestings {
            let (w, mention) = *rng.pick(&NOT_SEND);
            let level = 1 + (rng.next() % 3) as u32;
            let t = nest(&mut rng, w, level);
            add(format!("T-neg-Send-{}-nested{}", pname, n), true, Some(mention.to_string()),
                format!("pub fn probe() {{ need_send::<{}>() }}", instantiate(pos, &t)));
            let (w, mention) = *rng.pick(&NOT_SYNC);
            let level = 1 + (rng.next() % 3) as u32;
            let t = nest(&mut rng, w, level);
            add(format!("T-neg-Sync-{}-nested{}", pname, n), true, Some(mention.to_string()),
                format!("pub fn probe() {{ need_sync::<{}>() }}", instantiate(pos, &t)));
        }
    }
    // the borrowing iterators are shared borrows of the cache that hand out
    // &K / &V: whatever they implement, moving one to another thread must need
    // K and V to be Sync (a Send-only witness separates the two)
    for it in ["Iter", "Keys", "Values"] {
        for (i, w) in ["std::cell::Cell<u8>", "std::cell::RefCell<String>"].iter().enumerate() {
            add(format!("T-neg-Send-{}-K-sendonly{}", it, i), true, None,
                format!("pub fn probe() {{ need_send::<lru_mem::{}<'static, {}, u8>>() }}", it, w));
            add(format!("T-neg-Send-{}-V-sendonly{}", it, i), true, None,
                format!("pub fn probe() {{ need_send::<lru_mem::{}<'static, u8, {}>>() }}", it, w));
            add(format!("T-neg-Sync-{}-V-sendonly{}", it, i), true, None,
                format!("pub fn probe() {{ need_sync::<lru_mem::{}<'static, u8, {}>>() }}", it, w));
        }
    }
    out
}

struct Api {
    name: &'static str,
    obtain: &'static str,
    usage: &'static str,
    /// obtained through &mut self
    exclusive: bool,
    /// expression (in a fn taking `cache: &'a mut Cache`) returning the borrow, and its type
    ret_expr: &'static str,
    ret_type: &'static str,
}

const APIS: [Api; 16] = [
    Api { name: "get", obtain: "let r = cache.get(\"a\").unwrap();", usage: "touch(&r.len());", exclusive: true, ret_expr: "cache.get(\"a\").unwrap()", ret_type: "&'a String" },
    Api { name: "get_entry", obtain: "let r = cache.get_entry(\"a\").unwrap();", usage: "touch(&(r.0.len() + r.1.len()));", exclusive: true, ret_expr: "cache.get_entry(\"a\").unwrap()", ret_type: "(&'a String, &'a String)" },
    Api { name: "get_lru", obtain: "let r = cache.get_lru().unwrap();", usage: "touch(&(r.0.len() + r.1.len()));", exclusive: true, ret_expr: "cache.get_lru().unwrap()", ret_type: "(&'a String, &'a String)" },
    Api { name: "peek", obtain: "let r = cache.peek(\"a\").unwrap();", usage: "touch(&r.len());", exclusive: false, ret_expr: "cache.peek(\"a\").unwrap()", ret_type: "&'a String" },
    Api { name: "peek_entry", obtain: "let r = cache.peek_entry(\"a\").unwrap();", usage: "touch(&(r.0.len() + r.1.len()));", exclusive: false, ret_expr: "cache.peek_entry(\"a\").unwrap()", ret_type: "(&'a String, &'a String)" },
    Api { name: "peek_lru", obtain: "let r = cache.peek_lru().unwrap();", usage: "touch(&(r.0.len() + r.1.len()));", exclusive: false, ret_expr: "cache.peek_lru().unwrap()", ret_type: "(&'a String, &'a String)" },
    Api { name: "peek_mru", obtain: "let r = cache.peek_mru().unwrap();", usage: "touch(&(r.0.len() + r.1.len()));", exclusive: false, ret_expr: "cache.peek_mru().unwrap()", ret_type: "(&'a String, &'a String)" },
    Api { name: "iter", obtain: "let mut r = cache.iter();", usage: "touch(&r.next());", exclusive: false, ret_expr: "cache.iter()", ret_type: "lru_mem::Iter<'a, String, String>" },
    Api { name: "iter-item", obtain: "let r = cache.iter().next().unwrap();", usage: "touch(&(r.0.len() + r.1.len()));", exclusive: false, ret_expr: "cache.iter().next_back().unwrap()", ret_type: "(&'a String, &'a String)" },
    Api { name: "keys", obtain: "let mut r = cache.keys();", usage: "touch(&r.next_back());", exclusive: false, ret_expr: "cache.keys()", ret_type: "lru_mem::Keys<'a, String, String>" },
    Api { name: "keys-item", obtain: "let r = cache.keys().next().unwrap();", usage: "touch(&r.len());", exclusive: false, ret_expr: "cache.keys().next().unwrap()", ret_type: "&'a String" },
    Api { name: "values", obtain: "let mut r = cache.values();", usage: "touch(&r.next());", exclusive: false, ret_expr: "cache.values()", ret_type: "lru_mem::Values<'a, String, String>" },
    Api { name: "values-item", obtain: "let r = cache.values().next_back().unwrap();", usage: "touch(&r.len());", exclusive: false, ret_expr: "cache.values().next().unwrap()", ret_type: "&'a String" },
    Api { name: "hasher", obtain: "let r = cache.hasher();", usage: "touch(r);", exclusive: false, ret_expr: "cache.hasher()", ret_type: "&'a std::collections::hash_map::RandomState" },
    Api { name: "drain", obtain: "let mut r = cache.drain();", usage: "touch(&r.next());", exclusive: true, ret_expr: "cache.drain()", ret_type: "lru_mem::Drain<'a, String, String, std::collections::hash_map::RandomState>" },
    Api { name: "debug-of-iter", obtain: "let r = cache.iter().rev().next().unwrap().1;", usage: "touch(&r.len());", exclusive: false, ret_expr: "cache.iter().rev().next().unwrap().1", ret_type: "&'a String" },
];

const ACTIONS: [(&str, &str); 22] = [
    ("insert", "cache.insert(\"x\".to_owned(), \"y\".to_owned()).unwrap();"),
    ("try_insert", "touch(&cache.try_insert(\"x\".to_owned(), \"y\".to_owned()).is_ok());"),
    ("clear", "cache.clear();"),
    ("mutate", "cache.mutate(\"a\", |v| v.push('x')).unwrap();"),
    ("set_max_size", "cache.set_max_size(10);"),
    ("get", "touch(&cache.get(\"a\").is_some());"),
    ("get_entry", "touch(&cache.get_entry(\"a\").is_some());"),
    ("get_lru", "touch(&cache.get_lru().is_some());"),
    ("touch", "cache.touch(\"a\");"),
    ("remove", "touch(&cache.remove(\"a\"));"),
    ("remove_entry", "touch(&cache.remove_entry(\"a\").is_some());"),
    ("remove_lru", "touch(&cache.remove_lru().is_some());"),
    ("remove_mru", "touch(&cache.remove_mru().is_some());"),
    ("retain", "cache.retain(|k, _| k.len() > 3);"),
    ("reserve", "cache.reserve(100);"),
    ("try_reserve", "touch(&cache.try_reserve(100).is_ok());"),
    ("shrink_to", "cache.shrink_to(1);"),
    ("shrink_to_fit", "cache.shrink_to_fit();"),
    ("drain", "touch(&cache.drain().count());"),
    ("drop", "drop(cache);"),
    ("move", "let moved = cache; touch(&moved.len());"),
    ("assign", "cache = new_cache();"),
];

/// actions that only need a shared borrow: allowed while holding a shared
/// borrow, still forbidden while holding an exclusive one
const SHARED_ACTIONS: [(&str, &str); 3] = [
    ("peek", "touch(&cache.peek(\"a\").is_some());"),
    ("len", "touch(&cache.len());"),
    ("iter", "touch(&cache.iter().count());"),
];

const BORROW_CODES: [&str; 8] = ["E0499", "E0502", "E0505", "E0506", "E0515", "E0597", "E0716", "E0503"];

pub fn borrow_probes(_seed: u64) -> Vec<Probe> {
    let mut out = Vec::new();
    let setup = "    let mut cache = new_cache();\n    cache.insert(\"a\".to_owned(), \"b\".to_owned()).unwrap();\n";
    for api in &APIS {
        for (aname, action) in &ACTIONS {
            // use after the conflicting action: must be rejected
            out.push(Probe {
                id: format!("B-neg-{}-then-{}", api.name, aname), krate: "borrows", expect_reject: true,
                codes: BORROW_CODES.to_vec(), must_mention: None,
                source: format!("#[allow(unused_assignments, unused_mut, unused_variables)]\npub fn probe() {{\n{}    {}\n    {}\n    {}\n}}", setup, api.obtain, action, api.usage),
                line_start: 0, line_end: 0,
            });
            // twin: use before the action: must be accepted
            out.push(Probe {
                id: format!("B-pos-{}-before-{}", api.name, aname), krate: "borrows", expect_reject: false,
                codes: vec![], must_mention: None,
                // (a Drain has a destructor, so its borrow lasts until it is dropped)
                source: format!("#[allow(unused_assignments, unused_mut, unused_variables, dropping_references, dropping_copy_types)]\npub fn probe() {{\n{}    {}\n    {}\n    drop(r);\n    {}\n}}", setup, api.obtain, api.usage, action),
                line_start: 0, line_end: 0,
            });
        }
        for (aname, action) in &SHARED_ACTIONS {
            out.push(Probe {
                id: format!("B-{}-{}-then-shared-{}", if api.exclusive { "neg" } else { "pos" }, api.name, aname),
                krate: "borrows", expect_reject: api.exclusive,
                codes: BORROW_CODES.to_vec(), must_mention: None,
                source: format!("#[allow(unused_mut, unused_variables)]\npub fn probe() {{\n{}    {}\n    {}\n    {}\n}}", setup, api.obtain, action, api.usage),
                line_start: 0, line_end: 0,
            });
        }
        // the borrow cannot outlive the cache
        out.push(Probe {
            id: format!("B-neg-{}-escapes-scope", api.name), krate: "borrows", expect_reject: true,
            codes: BORROW_CODES.to_vec(), must_mention: None,
            source: format!("#[allow(unused_mut)]\npub fn probe<'a>() -> {} {{\n{}    {}\n}}", api.ret_type, setup, api.ret_expr),
            line_start: 0, line_end: 0,
        });
        out.push(Probe {
            id: format!("B-pos-{}-returned-with-cache-lifetime", api.name), krate: "borrows", expect_reject: false,
            codes: vec![], must_mention: None,
            source: format!("pub fn probe<'a>(cache: &'a mut Cache) -> {} {{\n    {}\n}}", api.ret_type, api.ret_expr),
            line_start: 0, line_end: 0,
        });
        // the borrow cannot be stretched to 'static
        out.push(Probe {
            id: format!("B-neg-{}-as-static", api.name), krate: "borrows", expect_reject: true,
            codes: vec!["E0621", "E0521", "E0759", "lifetime"], must_mention: None,
            source: format!("pub fn probe<'a>(cache: &'a mut Cache) -> {} {{\n    {}\n}}", api.ret_type.replace("'a", "'static"), api.ret_expr),
            line_start: 0, line_end: 0,
        });
    }
    // references handed to closures must not escape them
    let escapes: [(&str, &str, &str); 4] = [
        ("retain-key", "let mut kept: Vec<&String> = Vec::new();\n    cache.retain(|k, _| { kept.push(k); false });\n    touch(&kept.len());",
            "let mut n = 0usize;\n    cache.retain(|k, _| { n += k.len(); false });\n    touch(&n);"),
        ("retain-value", "let mut kept: Option<&String> = None;\n    cache.retain(|_, v| { kept = Some(v); false });\n    touch(&kept.is_some());",
            "let mut kept: Option<String> = None;\n    cache.retain(|_, v| { kept = Some(v.clone()); false });\n    touch(&kept.is_some());"),
        ("mutate-value", "let mut leaked: Option<&mut String> = None;\n    cache.mutate(\"a\", |v| { leaked = Some(v); }).unwrap();\n    touch(&leaked.is_some());",
            "let mut seen = 0usize;\n    cache.mutate(\"a\", |v| { seen = v.len(); }).unwrap();\n    touch(&seen);"),
        ("mutate-result", "let r: &mut String = cache.mutate(\"a\", |v| v).unwrap().unwrap();\n    cache.clear();\n    r.push('x');",
            "let r: usize = cache.mutate(\"a\", |v| v.len()).unwrap().unwrap();\n    cache.clear();\n    touch(&r);"),
    ];
    for (name, bad, good) in escapes {
        out.push(Probe {
            id: format!("B-neg-closure-escape-{}", name), krate: "borrows", expect_reject: true,
            codes: vec!["E0521", "E0499", "E0502", "E0505", "E0506", "E0597", "E0716", "E0373", "lifetime"], must_mention: None,
            source: format!("#[allow(unused_mut, unused_variables, unused_assignments)]\npub fn probe() {{\n{}    {}\n}}", setup, bad),
            line_start: 0, line_end: 0,
        });
        out.push(Probe {
            id: format!("B-pos-closure-no-escape-{}", name), krate: "borrows", expect_reject: false,
            codes: vec![], must_mention: None,
            source: format!("#[allow(unused_mut, unused_variables, unused_assignments)]\npub fn probe() {{\n{}    {}\n}}", setup, good),
            line_start: 0, line_end: 0,
        });
    }
    out
}

const TRAIT_PRELUDE: &str = "#![allow(dead_code)]\nfn need_send<T: Send>() {}\nfn need_sync<T: Sync>() {}\n";
const BORROW_PRELUDE: &str = "#![allow(dead_code)]\ntype Cache = lru_mem::LruCache<String, String, std::collections::hash_map::RandomState>;\nfn new_cache() -> Cache { lru_mem::LruCache::with_hasher(1000, std::collections::hash_map::RandomState::new()) }\nfn touch<T: ?Sized>(_: &T) {}\n";

fn write_crate(dir: &Path, name: &str, prelude: &str, probes: &mut [Probe], repo: &Path) -> std::io::Result<()> {
    std::fs::create_dir_all(dir.join("src"))?;
    std::fs::write(dir.join("Cargo.toml"), format!(
        "[package]\nname = \"{}\"\nversion = \"0.0.0\"\nedition = \"2021\"\npublish = false\n\n[dependencies]\nlru-mem = {{ path = \"{}\" }}\n\n[workspace]\n",
        name, repo.display()))?;
    let lock = repo.join("Cargo.lock");
    if lock.exists() {
        let _ = std::fs::copy(lock, dir.join("Cargo.lock"));
    }
    let mut src = String::from(prelude);
    let mut line = src.lines().count() + 1;
    for (i, p) in probes.iter_mut().enumerate() {
        let body = format!("pub mod p{} {{\n    #[allow(unused_imports)] use super::*;\n// probe {}\n{}\n}}\n", i, p.id, p.source);
        p.line_start = line;
        line += body.lines().count();
        p.line_end = line - 1;
        src.push_str(&body);
    }
    std::fs::write(dir.join("src/lib.rs"), src)
}

fn cargo_check(dir: &Path, target: &Path) -> Result<Vec<(usize, String, String)>, String> {
    let out = Command::new("cargo")
        .arg("check").arg("--offline").arg("--message-format=json").arg("--quiet")
        .env("CARGO_TARGET_DIR", target)
        .env("CARGO_NET_OFFLINE", "true")
        .current_dir(dir)
        .output().map_err(|e| format!("cannot run cargo: {}", e))?;
    let mut errors = Vec::new();
    let stdout = String::from_utf8_lossy(&out.stdout);
    let mut saw_any = false;
    for l in stdout.lines() {
        let v: Value = match serde_json::from_str(l) { Ok(v) => v, Err(_) => continue };
        saw_any = true;
        if v.get("reason").and_then(|r| r.as_str()) != Some("compiler-message") {
            continue;
        }
        let m = &v["message"];
        if m["level"].as_str() != Some("error") {
            continue;
        }
        let code = m["code"]["code"].as_str().unwrap_or("").to_string();
        let text = format!("{} {}", m["message"].as_str().unwrap_or(""), m["rendered"].as_str().unwrap_or(""));
        let mut lines: Vec<usize> = m["spans"].as_array().map(|a| a.iter()
            .filter(|s| s["file_name"].as_str().map(|f| f.ends_with("src/lib.rs")).unwrap_or(false))
            .filter_map(|s| s["line_start"].as_u64().map(|x| x as usize)).collect()).unwrap_or_default();
        lines.dedup();
        if let Some(&l0) = lines.first() {
            errors.push((l0, code, text));
        }
    }
    if !saw_any && !out.status.success() {
        return Err(format!("cargo check produced no diagnostics: {}", String::from_utf8_lossy(&out.stderr)));
    }
    // a failure to build the dependency itself is not a probe verdict
    let stderr = String::from_utf8_lossy(&out.stderr);
    if stderr.contains("could not compile `lru-mem`") {
        return Err(format!("lru-mem itself does not compile: {}", stderr));
    }
    Ok(errors)
}

pub fn evaluate(probes: Vec<Probe>, errors: &[(usize, String, String)]) -> Vec<ProbeResult> {
    probes.into_iter().map(|p| {
        let mine: Vec<(String, String)> = errors.iter()
            .filter(|(l, _, _)| *l >= p.line_start && *l <= p.line_end)
            .map(|(_, c, t)| (c.clone(), t.clone())).collect();
        let (ok, why) = if p.expect_reject {
            if mine.is_empty() {
                (false, "rustc ACCEPTED a program that must be rejected".to_string())
            }
            else {
                let code_ok = mine.iter().any(|(c, t)| p.codes.iter().any(|e| c == e || (*e == "lifetime" && t.contains("lifetime"))));
                let mention_ok = p.must_mention.as_ref().map(|m| mine.iter().any(|(_, t)| t.contains(m.as_str()))).unwrap_or(true);
                if !code_ok {
                    (false, format!("rejected, but with {:?} instead of one of {:?}", mine.iter().map(|(c, _)| c.clone()).collect::<Vec<_>>(), p.codes))
                }
                else if !mention_ok {
                    (false, format!("rejected, but not because of the witness {:?}", p.must_mention))
                }
                else {
                    (true, String::new())
                }
            }
        }
        else if mine.is_empty() {
            (true, String::new())
        }
        else {
            (false, format!("rustc REJECTED a program that must be accepted: {}", mine.iter().map(|(c, t)| format!("{} {}", c, t.lines().next().unwrap_or(""))).collect::<Vec<_>>().join(" | ")))
        };
        ProbeResult { probe: p, errors: mine, ok, why }
    }).collect()
}

pub struct ProbeRun {
    pub results: Vec<ProbeResult>,
}

pub fn run_all(root: &Path, repo: &Path, seed: u64, extra_nestings: usize) -> Result<ProbeRun, String> {
    let base: PathBuf = root.join("harness/target/probes");
    let target = base.join("target");
    let mut results = Vec::new();
    let mut t = trait_probes(seed, extra_nestings);
    let tdir = base.join("traits");
    write_crate(&tdir, "probe-traits", TRAIT_PRELUDE, &mut t, repo).map_err(|e| e.to_string())?;
    let errs = cargo_check(&tdir, &target)?;
    results.extend(evaluate(t, &errs));
    let mut b = borrow_probes(seed);
    let bdir = base.join("borrows");
    write_crate(&bdir, "probe-borrows", BORROW_PRELUDE, &mut b, repo).map_err(|e| e.to_string())?;
    let errs = cargo_check(&bdir, &target)?;
    // type errors in the borrow crate would hide borrow checking altogether
    let type_errors: Vec<&(usize, String, String)> = errs.iter()
        .filter(|(_, c, _)| matches!(c.as_str(), "E0308" | "E0599" | "E0277" | "E0425" | "E0433" | "E0107" | "E0061")).collect();
    if !type_errors.is_empty() {
        return Err(format!("borrow probe crate does not type-check (API changed?): {:?}", type_errors.iter().take(3).collect::<Vec<_>>()));
    }
    results.extend(evaluate(b, &errs));
    Ok(ProbeRun { results })
}

pub fn histogram(results: &[ProbeResult]) -> BTreeMap<String, u64> {
    let mut h = BTreeMap::new();
    for r in results {
        let k = format!("{}.{}", r.probe.krate, if r.probe.expect_reject { "reject" } else { "accept" });
        *h.entry(k).or_insert(0) += 1;
        for (c, _) in &r.errors {
            *h.entry(format!("code.{}", c)).or_insert(0) += 1;
        }
    }
    h
}
