//! Deterministic, configurable `BuildHasher` family, from well-distributed to
//! constant, counting how many hashers are built (= how many key hashes the
//! cache computes) per thread.

use std::cell::Cell;
use std::hash::{BuildHasher, Hasher};

#[derive(Clone, Copy, Debug, PartialEq, Eq, Hash, PartialOrd, Ord)]
pub enum HKind {
    /// std SipHash-1-3 with fixed keys
    Sip,
    /// multiplicative (Fx-like) hash
    Fx,
    /// h = k: distinct positions, identical tag byte
    Identity,
    /// h = k mod 2^b: heavy collisions in position and tag
    LowBits(u8),
    /// h = k << 57: identical probe start, distinct tag bytes
    HighBits,
    /// every key collides
    Const,
    /// well distributed, but every clone of the builder hashes differently
    /// (a builder that re-seeds itself when cloned)
    Reseed,
    /// well distributed; the builder overrides `BuildHasher::hash_one` with a
    /// function that differs from the streaming path (lawful: each path is
    /// deterministic, and nothing ties them together - ahash does the same
    /// under specialisation). A table must stick to one path.
    OneOff,
}

pub const ALL_HKINDS: [HKind; 10] = [
    HKind::Sip, HKind::Fx, HKind::Identity, HKind::LowBits(1),
    HKind::LowBits(2), HKind::LowBits(4), HKind::HighBits, HKind::Const,
    HKind::Reseed, HKind::OneOff,
];

impl HKind {
    pub fn colliding(self) -> bool {
        matches!(self, HKind::LowBits(_) | HKind::HighBits | HKind::Const)
    }

    pub fn class(self) -> &'static str {
        match self {
            HKind::Sip | HKind::Fx | HKind::Reseed | HKind::OneOff => "spread",
            HKind::Identity => "identity",
            HKind::LowBits(_) => "lowbits",
            HKind::HighBits => "highbits",
            HKind::Const => "const",
        }
    }

    pub fn to_text(self) -> String {
        match self {
            HKind::Sip => "sip".into(),
            HKind::Fx => "fx".into(),
            HKind::Identity => "identity".into(),
            HKind::LowBits(b) => format!("lowbits:{}", b),
            HKind::HighBits => "highbits".into(),
            HKind::Const => "const".into(),
            HKind::Reseed => "reseed".into(),
            HKind::OneOff => "oneoff".into(),
        }
    }

    pub fn from_text(s: &str) -> Option<HKind> {
        Some(match s {
            "sip" => HKind::Sip,
            "fx" => HKind::Fx,
            "identity" => HKind::Identity,
            "highbits" => HKind::HighBits,
            "const" => HKind::Const,
            "reseed" => HKind::Reseed,
            "oneoff" => HKind::OneOff,
            _ => {
                let b = s.strip_prefix("lowbits:")?.parse().ok()?;
                HKind::LowBits(b)
            }
        })
    }
}

thread_local! {
    static BUILDS: Cell<u64> = const { Cell::new(0) };
    static HCLONES: Cell<u64> = const { Cell::new(0) };
}

pub fn builds() -> u64 {
    BUILDS.with(|c| c.get())
}

pub fn reset_builds() {
    BUILDS.with(|c| c.set(0));
}

/// Start of a case: hasher clones are numbered from 0 again, so that a case's
/// behaviour does not depend on the cases run before it.
pub fn reset_clones() {
    HCLONES.with(|c| c.set(0));
}

#[derive(Debug)]
pub struct VHasher {
    pub kind: HKind,
    pub salt: u64,
}

impl Clone for VHasher {
    fn clone(&self) -> VHasher {
        let n = HCLONES.with(|c| { c.set(c.get() + 1); c.get() });
        let salt = if self.kind == HKind::Reseed { self.salt.wrapping_add(n).wrapping_mul(0x2545_F491_4F6C_DD1D) | 1 } else { 0 };
        VHasher { kind: self.kind, salt }
    }
}

impl VHasher {
    pub fn new(kind: HKind) -> VHasher {
        VHasher { kind, salt: 0 }
    }
}

pub struct VH {
    kind: HKind,
    salt: u64,
    acc: u64,
    sip: std::collections::hash_map::DefaultHasher,
}

impl BuildHasher for VHasher {
    type Hasher = VH;

    fn build_hasher(&self) -> VH {
        BUILDS.with(|c| c.set(c.get() + 1));
        #[allow(deprecated)]
        let sip = std::collections::hash_map::DefaultHasher::new();
        VH { kind: self.kind, salt: self.salt, acc: 0, sip }
    }

    fn hash_one<T: std::hash::Hash>(&self, x: T) -> u64 {
        let mut h = self.build_hasher();
        x.hash(&mut h);
        let v = h.finish();
        if self.kind == HKind::OneOff { v.rotate_left(23) ^ 0x5DEE_CE66_D1CE_4E5B } else { v }
    }
}

impl Hasher for VH {
    fn write(&mut self, bytes: &[u8]) {
        for &b in bytes.iter().rev() {
            self.acc = (self.acc << 8) | b as u64;
        }
        if self.kind == HKind::Sip {
            self.sip.write(bytes);
        }
    }

    fn finish(&self) -> u64 {
        let k = self.acc;
        match self.kind {
            HKind::Sip => self.sip.finish(),
            HKind::Fx | HKind::OneOff => (k.wrapping_add(1)).wrapping_mul(0x9E37_79B9_7F4A_7C15).rotate_left(26),
            HKind::Identity => k,
            HKind::LowBits(b) => k & ((1u64 << b.min(16)) - 1),
            HKind::HighBits => k << 57,
            HKind::Const => 0,
            HKind::Reseed => (k.wrapping_add(1) ^ self.salt).wrapping_mul(0x9E37_79B9_7F4A_7C15).rotate_left(31) ^ self.salt.rotate_left(17),
        }
    }
}
