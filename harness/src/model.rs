//! Reference model: a `Vec` of entries in recency order (LRU first) plus the
//! limit. Obviously-correct linear code; knows nothing about hashes,
//! capacity or pointers.

#[derive(Clone, Debug, PartialEq, Eq)]
pub struct Ent {
    pub k: u16,
    pub key_id: u64,
    pub val_id: u64,
    pub kheap: usize,
    pub vheap: usize,
    pub tag: u32,
    /// the size the cache has recorded for this entry (== e0 + kheap + vheap
    /// unless a callback unwound in the middle of a mutate)
    pub size: usize,
}

#[derive(Clone, Debug, Default)]
pub struct Model {
    /// least-recently-used first
    pub order: Vec<Ent>,
    pub limit: usize,
    present: Vec<bool>,
    /// running sum of the recorded sizes (kept equal to the sum over `order`)
    sum: u128,
}

impl Model {
    pub fn new(limit: usize, universe: usize) -> Model {
        Model { order: Vec::new(), limit, present: vec![false; universe], sum: 0 }
    }

    pub fn len(&self) -> usize {
        self.order.len()
    }

    /// Sum of the recorded sizes. For a correct cache this is at most the
    /// limit; saturates instead of wrapping should it ever not fit.
    pub fn total(&self) -> usize {
        self.sum.min(usize::MAX as u128) as usize
    }

    /// Changes the recorded size of the i-th entry.
    pub fn set_size(&mut self, i: usize, size: usize) {
        self.sum = self.sum - self.order[i].size as u128 + size as u128;
        self.order[i].size = size;
    }

    pub fn pos(&self, k: u16) -> Option<usize> {
        if !self.contains(k) {
            return None;
        }
        self.order.iter().position(|e| e.k == k)
    }

    pub fn contains(&self, k: u16) -> bool {
        self.present.get(k as usize).copied().unwrap_or(false)
    }

    pub fn get(&self, k: u16) -> Option<&Ent> {
        self.pos(k).map(|i| &self.order[i])
    }

    pub fn push(&mut self, e: Ent) {
        debug_assert!(!self.contains(e.k));
        if (e.k as usize) >= self.present.len() {
            self.present.resize(e.k as usize + 1, false);
        }
        self.present[e.k as usize] = true;
        self.sum += e.size as u128;
        self.order.push(e);
    }

    pub fn remove_at(&mut self, i: usize) -> Ent {
        let e = self.order.remove(i);
        self.present[e.k as usize] = false;
        self.sum -= e.size as u128;
        e
    }

    pub fn promote(&mut self, i: usize) {
        let e = self.order.remove(i);
        self.order.push(e);
    }

    /// Pops least-recently-used entries while the total exceeds `target`.
    pub fn evict_to(&mut self, target: usize) -> Vec<Ent> {
        let mut out = Vec::new();
        while self.sum > target as u128 && !self.order.is_empty() {
            let e = self.remove_at(0);
            out.push(e);
        }
        out
    }

    pub fn clear(&mut self) -> Vec<Ent> {
        for e in &self.order {
            self.present[e.k as usize] = false;
        }
        self.sum = 0;
        std::mem::take(&mut self.order)
    }

    /// j-th absent key of the universe, scanning upwards from `j mod universe`.
    pub fn absent(&self, j: u16, universe: u16) -> Option<u16> {
        let u = universe as usize;
        let start = j as usize % u;
        (0..u).map(|d| (start + d) % u).find(|&k| !self.present[k]).map(|k| k as u16)
    }

    pub fn keys(&self) -> Vec<u16> {
        self.order.iter().map(|e| e.k).collect()
    }

    pub fn replace_all(&mut self, ents: Vec<Ent>) {
        for p in self.present.iter_mut() {
            *p = false;
        }
        for e in &ents {
            if (e.k as usize) >= self.present.len() {
                self.present.resize(e.k as usize + 1, false);
            }
            self.present[e.k as usize] = true;
        }
        self.sum = ents.iter().map(|e| e.size as u128).sum();
        self.order = ents;
    }
}
