//! lruverif: property-based / fuzzing verification machinery for lru-mem.

pub mod alloc;
pub mod engines;
pub mod exec;
pub mod exec2;
pub mod gen;
pub mod hashers;
pub mod huge;
pub mod interp;
pub mod model;
pub mod ops;
pub mod probes;
pub mod runner;
pub mod shapes;
pub mod shared;
pub mod stdvals;
pub mod steps;
pub mod tracked;
pub mod variants;

use std::sync::atomic::{AtomicBool, Ordering};

static ALLOC_INSTALLED: AtomicBool = AtomicBool::new(false);

/// Binaries that install `alloc::VAlloc` as the global allocator call this
/// once at start-up; allocator-refusal injection is only used then.
pub fn detect_alloc() {
    let before = alloc::allocs();
    let v: Vec<u8> = Vec::with_capacity(64);
    std::hint::black_box(&v);
    let after = alloc::allocs();
    drop(v);
    ALLOC_INSTALLED.store(after > before, Ordering::SeqCst);
}

pub fn alloc_installed() -> bool {
    ALLOC_INSTALLED.load(Ordering::SeqCst)
}
