pub fn hello() {}
