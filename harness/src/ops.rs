//! The operation language: configuration + operations with state-relative
//! selectors, a line-oriented text codec (replay files) and a byte codec
//! (fuzz inputs). Every byte string decodes to some valid case.

use crate::hashers::HKind;
use crate::tracked::Cb;

#[derive(Clone, Copy, Debug, PartialEq, Eq, Hash)]
pub enum KeySel {
    Lru,
    Mru,
    /// i-th entry in recency order, mapped monotonically `i * len >> 16`
    Nth(u16),
    /// j-th key of the universe that is not present
    Absent(u16),
    /// key `k mod universe`
    Raw(u16),
}

#[derive(Clone, Copy, Debug, PartialEq, Eq, Hash)]
pub enum Form {
    Owned,
    Borrowed,
}

/// Target *entry size* of an inserted pair / a mutated entry.
#[derive(Clone, Copy, Debug, PartialEq, Eq, Hash)]
pub enum SizeSel {
    /// value without heap
    Zero,
    /// value heap of n bytes
    Abs(u32),
    /// free space (crediting a replaced entry) + d
    FreePlus(i8),
    /// limit + d
    MaxPlus(i8),
    /// free space + sizes of the n least-recently-used other entries + d
    NeedEvict(u8, i8),
    /// (limit >> k) + d: sizes that scale with the limit, so that limits near
    /// usize::MAX are exercised with entries of that magnitude
    Frac(u8, i8),
}

#[derive(Clone, Copy, Debug, PartialEq, Eq, Hash)]
pub enum LimSel {
    Zero,
    Abs(u32),
    /// current_size + d
    CurPlus(i8),
    /// sum of the sizes of the n most-recently-used entries + d
    KeepMru(u8, i8),
    /// n zero-heap entries + d
    Ents(u16, i8),
    Max,
    MaxMinus(u8),
    /// 2^e + d (e <= 63)
    Pow(u8, i8),
    /// 2^63 + 2^62 + d
    ThreeQuarters(i8),
}

#[derive(Clone, Copy, Debug, PartialEq, Eq, Hash)]
pub enum CapArg {
    Zero,
    Abs(u32),
    LenPlus(i8),
    CapPlus(i8),
    Pow2Plus(u8, i8),
    /// usize::MAX (only ever used with try_reserve)
    Max,
    /// usize::MAX / size_of::<Entry>: the byte computation overflows
    MaxDiv,
}

#[derive(Clone, Copy, Debug, PartialEq, Eq, Hash, PartialOrd, Ord)]
pub enum IterKind {
    Iter,
    Keys,
    Values,
    Drain,
    IntoIter,
    IntoKeys,
    IntoValues,
}

pub const ITER_KINDS: [IterKind; 7] = [
    IterKind::Iter, IterKind::Keys, IterKind::Values, IterKind::Drain,
    IterKind::IntoIter, IterKind::IntoKeys, IterKind::IntoValues,
];

impl IterKind {
    pub fn name(self) -> &'static str {
        match self {
            IterKind::Iter => "iter",
            IterKind::Keys => "keys",
            IterKind::Values => "values",
            IterKind::Drain => "drain",
            IterKind::IntoIter => "into_iter",
            IterKind::IntoKeys => "into_keys",
            IterKind::IntoValues => "into_values",
        }
    }

    pub fn from_name(s: &str) -> Option<IterKind> {
        ITER_KINDS.iter().copied().find(|k| k.name() == s)
    }

    pub fn borrowing(self) -> bool {
        matches!(self, IterKind::Iter | IterKind::Keys | IterKind::Values)
    }

    pub fn consuming(self) -> bool {
        matches!(self, IterKind::IntoIter | IterKind::IntoKeys | IterKind::IntoValues)
    }

    /// declared `FusedIterator`
    pub fn fused(self) -> bool {
        !self.consuming()
    }
}

#[derive(Clone, Copy, Debug, PartialEq, Eq, Hash)]
pub enum Fate {
    Drop,
    Forget,
    /// the closure handed to a finishing consumer (`for_each`, ...) panics when
    /// it receives its (k+1)-th item; the unwinding drops the iterator
    Unwind(u8),
}

impl Fate {
    pub fn to_text(self) -> String {
        match self { Fate::Drop => "drop".into(), Fate::Forget => "forget".into(), Fate::Unwind(k) => format!("unwind:{}", k) }
    }

    pub fn from_text(s: &str) -> Option<Fate> {
        Some(match s {
            "drop" => Fate::Drop,
            "forget" => Fate::Forget,
            _ => Fate::Unwind(s.strip_prefix("unwind:")?.parse().ok()?),
        })
    }
}

/// How a walk continues after its explicit calls.
#[derive(Clone, Copy, Debug, PartialEq, Eq, Hash)]
pub enum Rest {
    Stop,
    Front,
    Back,
    Alternate,
    // finishing consumers: the iterator is handed, by value, to one of the
    // provided methods / adaptors of Iterator and DoubleEndedIterator
    Count,
    Last,
    /// `for_each` (internal iteration through `fold`)
    Fold,
    /// `rev().for_each` (through `rfold`)
    RFold,
    /// `skip(k).for_each`
    Skip(u8),
    /// `step_by(k + 1).for_each`
    StepBy(u8),
    /// `rev().step_by(k + 1).for_each`
    RevStepBy(u8),
    /// `by_ref().take(k)` collected, then the rest front to back with `next`
    TakeThenFront(u8),
}

impl Rest {
    pub fn to_text(self) -> String {
        match self {
            Rest::Stop => "stop".into(), Rest::Front => "front".into(), Rest::Back => "back".into(),
            Rest::Alternate => "alternate".into(), Rest::Count => "count".into(), Rest::Last => "last".into(),
            Rest::Fold => "fold".into(), Rest::RFold => "rfold".into(),
            Rest::Skip(k) => format!("skip{}", k), Rest::StepBy(k) => format!("step{}", k),
            Rest::RevStepBy(k) => format!("rstep{}", k), Rest::TakeThenFront(k) => format!("take{}", k),
        }
    }

    pub fn from_text(s: &str) -> Option<Rest> {
        Some(match s {
            "stop" => Rest::Stop, "front" => Rest::Front, "back" => Rest::Back, "alternate" => Rest::Alternate,
            "count" => Rest::Count, "last" => Rest::Last, "fold" => Rest::Fold, "rfold" => Rest::RFold,
            _ => {
                if let Some(k) = s.strip_prefix("skip") { Rest::Skip(k.parse().ok()?) }
                else if let Some(k) = s.strip_prefix("step") { Rest::StepBy(k.parse().ok()?) }
                else if let Some(k) = s.strip_prefix("rstep") { Rest::RevStepBy(k.parse().ok()?) }
                else if let Some(k) = s.strip_prefix("take") { Rest::TakeThenFront(k.parse().ok()?) }
                else { return None; }
            },
        })
    }

    /// the iterator is consumed by value (it cannot be forgotten afterwards)
    pub fn finishing(self) -> bool {
        !matches!(self, Rest::Stop | Rest::Front | Rest::Back | Rest::Alternate)
    }
}

/// One explicit call on an iterator.
#[derive(Clone, Copy, Debug, PartialEq, Eq, Hash)]
pub enum Call {
    Next,
    NextBack,
    Nth(u8),
    NthBack(u8),
    /// `size_hint()`: only has to be memory-safe and bracket what remains
    Hint,
}

impl Call {
    pub fn back(self) -> bool { matches!(self, Call::NextBack | Call::NthBack(_)) }
    pub fn positional(self) -> bool { matches!(self, Call::Nth(_) | Call::NthBack(_)) }
    pub fn letter(self) -> String {
        match self {
            Call::Next => "f".into(), Call::NextBack => "b".into(), Call::Hint => "h".into(),
            Call::Nth(n) => format!("n{:x}", n.min(15)), Call::NthBack(n) => format!("m{:x}", n.min(15)),
        }
    }
}

/// The calls actually made: the explicit ones plus what `rest` adds.
#[derive(Clone, Debug)]
pub struct WalkPlan {
    pub calls: Vec<Call>,
    /// `Stop` or one of the finishing consumers
    pub fin: Rest,
}

pub fn plan_walk(calls: &[Call], rest: Rest, len: usize) -> WalkPlan {
    let mut out: Vec<Call> = calls.to_vec();
    match rest {
        Rest::Front | Rest::Back | Rest::Alternate => {
            // continue to exhaustion and two calls beyond
            let done = out.len();
            let remaining = len.saturating_sub(done.min(len)) + 2;
            for i in 0..remaining {
                out.push(match rest {
                    Rest::Front => Call::Next,
                    Rest::Back => Call::NextBack,
                    _ => if i % 2 == 1 { Call::NextBack } else { Call::Next },
                });
            }
            WalkPlan { calls: out, fin: Rest::Stop }
        },
        other => WalkPlan { calls: out, fin: other },
    }
}

/// What a correct double-ended iterator over positions 0..len (least- to
/// most-recently-used) answers to a plan.
#[derive(Clone, Debug, Default)]
pub struct WalkExpect {
    /// per explicit call: the position yielded, or None (also for `Hint`)
    pub per_call: Vec<Option<usize>>,
    /// (front, back) consumed before each call: what remains is len - front - back
    pub before: Vec<(usize, usize)>,
    /// positions the finishing consumer hands out, in order
    pub fin_items: Vec<usize>,
    /// result of `count()`
    pub fin_count: Option<usize>,
    /// everything handed out (by calls and by the finishing consumer)
    pub yielded: std::collections::BTreeSet<usize>,
    /// index of the first call that returned None
    pub exhausted_at: Option<usize>,
    /// nothing is left inside the iterator when it is dropped
    pub consumed_all: bool,
}

pub fn expect_walk(plan: &WalkPlan, len: usize) -> WalkExpect {
    let mut e = WalkExpect::default();
    let (mut i, mut j) = (0usize, 0usize);
    for (n, c) in plan.calls.iter().enumerate() {
        e.before.push((i, j));
        let rem = len - i - j;
        let r = match *c {
            Call::Hint => { e.per_call.push(None); continue; },
            Call::Next => if rem == 0 { None } else { i += 1; Some(i - 1) },
            Call::NextBack => if rem == 0 { None } else { j += 1; Some(len - j) },
            Call::Nth(k) => if (k as usize) >= rem { i = len - j; None } else { i += k as usize + 1; Some(i - 1) },
            Call::NthBack(k) => if (k as usize) >= rem { j = len - i; None } else { j += k as usize + 1; Some(len - j) },
        };
        if r.is_none() && e.exhausted_at.is_none() {
            e.exhausted_at = Some(n);
        }
        if let Some(p) = r { e.yielded.insert(p); }
        e.per_call.push(r);
    }
    let rest: Vec<usize> = (i..len - j).collect();
    match plan.fin {
        Rest::Stop | Rest::Front | Rest::Back | Rest::Alternate => { e.consumed_all = rest.is_empty(); return e; },
        Rest::Count => e.fin_count = Some(rest.len()),
        Rest::Last => e.fin_items = rest.last().copied().into_iter().collect(),
        Rest::Fold => e.fin_items = rest.clone(),
        Rest::RFold => e.fin_items = rest.iter().rev().copied().collect(),
        Rest::Skip(k) => e.fin_items = rest.iter().skip(k as usize).copied().collect(),
        Rest::StepBy(k) => e.fin_items = rest.iter().step_by(k as usize + 1).copied().collect(),
        Rest::RevStepBy(k) => e.fin_items = rest.iter().rev().step_by(k as usize + 1).copied().collect(),
        Rest::TakeThenFront(_) => e.fin_items = rest.clone(),
    }
    e.yielded.extend(e.fin_items.iter().copied());
    e.consumed_all = true;
    e
}

/// What the driver reports to its sink.
pub enum WalkOut<T> {
    /// result of an explicit call
    Item(Option<T>),
    Hint(usize, Option<usize>),
    /// item handed out by the finishing consumer
    Fin(T),
    Count(usize),
    /// an injected panic came out of this explicit call and was caught
    Panicked,
}

/// Drives any double-ended iterator through a plan. Generic, so that the
/// very same calls are made on all seven iterator types.
pub fn drive_walk<I: DoubleEndedIterator>(it: I, plan: &WalkPlan, forget: bool, sink: impl FnMut(WalkOut<I::Item>)) {
    drive_walk_opts(it, plan, forget, false, sink)
}

/// `catch_each`: an injected panic that comes out of an explicit call is caught
/// there and the iterator stays in use (a caller may well do that).
pub fn drive_walk_opts<I: DoubleEndedIterator>(mut it: I, plan: &WalkPlan, forget: bool, catch_each: bool, mut sink: impl FnMut(WalkOut<I::Item>)) {
    for c in &plan.calls {
        if catch_each {
            let r = std::panic::catch_unwind(std::panic::AssertUnwindSafe(|| match *c {
                Call::Next => Some(it.next()),
                Call::NextBack => Some(it.next_back()),
                Call::Nth(k) => Some(it.nth(k as usize)),
                Call::NthBack(k) => Some(it.nth_back(k as usize)),
                Call::Hint => None,
            }));
            match r {
                Ok(Some(x)) => sink(WalkOut::Item(x)),
                Ok(None) => { let (lo, hi) = it.size_hint(); sink(WalkOut::Hint(lo, hi)); },
                Err(p) => {
                    if crate::tracked::panic_message(&*p).contains(crate::tracked::INJECTED) {
                        sink(WalkOut::Panicked);
                    }
                    else {
                        std::panic::resume_unwind(p);
                    }
                },
            }
            continue;
        }
        match *c {
            Call::Next => sink(WalkOut::Item(it.next())),
            Call::NextBack => sink(WalkOut::Item(it.next_back())),
            Call::Nth(k) => sink(WalkOut::Item(it.nth(k as usize))),
            Call::NthBack(k) => sink(WalkOut::Item(it.nth_back(k as usize))),
            Call::Hint => { let (lo, hi) = it.size_hint(); sink(WalkOut::Hint(lo, hi)); },
        }
    }
    match plan.fin {
        Rest::Stop | Rest::Front | Rest::Back | Rest::Alternate => {
            if forget { std::mem::forget(it); }
        },
        Rest::Count => sink(WalkOut::Count(it.count())),
        Rest::Last => { if let Some(x) = it.last() { sink(WalkOut::Fin(x)); } },
        Rest::Fold => it.for_each(|x| sink(WalkOut::Fin(x))),
        Rest::RFold => it.rev().for_each(|x| sink(WalkOut::Fin(x))),
        Rest::Skip(k) => it.skip(k as usize).for_each(|x| sink(WalkOut::Fin(x))),
        Rest::StepBy(k) => it.step_by(k as usize + 1).for_each(|x| sink(WalkOut::Fin(x))),
        Rest::RevStepBy(k) => it.rev().step_by(k as usize + 1).for_each(|x| sink(WalkOut::Fin(x))),
        Rest::TakeThenFront(k) => {
            let first: Vec<I::Item> = it.by_ref().take(k as usize).collect();
            for x in first { sink(WalkOut::Fin(x)); }
            while let Some(x) = it.next() { sink(WalkOut::Fin(x)); }
        },
    }
}

#[derive(Clone, Copy, Debug, PartialEq, Eq, Hash)]
pub enum CloneMode {
    /// clone, judge the clone, drop it
    Check,
    /// continue on the clone, drop the source
    Swap,
    /// keep both: the clone becomes a further side
    Fork,
    /// `target.clone_from(&cache)` into an existing, pre-filled cache with
    /// enough capacity; the result is judged like a clone and dropped
    From,
    /// `clone()` called from a destructor that runs while the thread unwinds
    /// from an unrelated panic (`thread::panicking()` is true throughout); the
    /// clone is judged like any other and continued on
    Unwinding,
}

#[derive(Clone, Debug, PartialEq, Eq, Hash)]
pub enum Op {
    Insert { key: KeySel, kheap: u8, size: SizeSel },
    TryInsert { key: KeySel, kheap: u8, size: SizeSel },
    Get { key: KeySel, form: Form },
    GetEntry { key: KeySel, form: Form },
    GetLru,
    Touch { key: KeySel, form: Form },
    Peek { key: KeySel, form: Form },
    PeekEntry { key: KeySel, form: Form },
    PeekLru,
    PeekMru,
    Contains { key: KeySel, form: Form },
    Remove { key: KeySel, form: Form },
    RemoveEntry { key: KeySel, form: Form },
    RemoveLru,
    RemoveMru,
    Mutate { key: KeySel, form: Form, size: SizeSel },
    SetMaxSize(LimSel),
    /// bit i (mod 64) set = keep; indexed by visit number or by key
    Retain { mask: u64, by_key: bool },
    Clear,
    Reserve(CapArg),
    TryReserve { arg: CapArg, fail_alloc: bool },
    ShrinkTo(CapArg),
    ShrinkToFit,
    /// calls: true = next_back
    IterWalk { kind: IterKind, calls: Vec<Call>, rest: Rest, fate: Fate },
    Debug,
    Clone(CloneMode),
    Scalars,
    InsertMany { count: u16, vheap: u16 },
    /// which: 0 = remove LRU, 1 = MRU, 2 = middle
    Churn { rounds: u16, which: u8 },
    /// switch the active side (after a fork)
    Side(u8),
    /// arm a panic at the nth callback of the given kind for the next
    /// operation; `late`: a closure panics after having modified the value
    Inject { cb: Cb, nth: u16, late: bool },
}

#[derive(Clone, Debug, PartialEq, Eq, Hash)]
pub struct Config {
    pub hasher: HKind,
    pub capacity: Option<u32>,
    pub limit: LimSel,
    pub universe: u16,
}

#[derive(Clone, Debug, PartialEq, Eq, Hash)]
pub struct Case {
    pub config: Config,
    pub ops: Vec<Op>,
}

// ------------------------------------------------------------------ text

fn sgn(d: i8) -> String {
    if d >= 0 { format!("+{}", d) } else { format!("{}", d) }
}

impl KeySel {
    pub fn to_text(&self) -> String {
        match self {
            KeySel::Lru => "lru".into(),
            KeySel::Mru => "mru".into(),
            KeySel::Nth(i) => format!("nth:{}", i),
            KeySel::Absent(i) => format!("absent:{}", i),
            KeySel::Raw(i) => format!("raw:{}", i),
        }
    }

    pub fn from_text(s: &str) -> Option<KeySel> {
        let p: Vec<&str> = s.split(':').collect();
        Some(match (p[0], p.len()) {
            ("lru", 1) => KeySel::Lru,
            ("mru", 1) => KeySel::Mru,
            ("nth", 2) => KeySel::Nth(p[1].parse().ok()?),
            ("absent", 2) => KeySel::Absent(p[1].parse().ok()?),
            ("raw", 2) => KeySel::Raw(p[1].parse().ok()?),
            _ => return None,
        })
    }
}

impl Form {
    pub fn to_text(&self) -> &'static str {
        match self { Form::Owned => "owned", Form::Borrowed => "borrowed" }
    }

    pub fn from_text(s: &str) -> Option<Form> {
        match s { "owned" => Some(Form::Owned), "borrowed" => Some(Form::Borrowed), _ => None }
    }
}

impl SizeSel {
    pub fn to_text(&self) -> String {
        match self {
            SizeSel::Zero => "zero".into(),
            SizeSel::Abs(n) => format!("abs:{}", n),
            SizeSel::FreePlus(d) => format!("free:{}", sgn(*d)),
            SizeSel::MaxPlus(d) => format!("max:{}", sgn(*d)),
            SizeSel::NeedEvict(n, d) => format!("evict:{}:{}", n, sgn(*d)),
            SizeSel::Frac(k, d) => format!("frac:{}:{}", k, sgn(*d)),
        }
    }

    pub fn from_text(s: &str) -> Option<SizeSel> {
        let p: Vec<&str> = s.split(':').collect();
        Some(match (p[0], p.len()) {
            ("zero", 1) => SizeSel::Zero,
            ("abs", 2) => SizeSel::Abs(p[1].parse().ok()?),
            ("free", 2) => SizeSel::FreePlus(p[1].parse().ok()?),
            ("max", 2) => SizeSel::MaxPlus(p[1].parse().ok()?),
            ("evict", 3) => SizeSel::NeedEvict(p[1].parse().ok()?, p[2].parse().ok()?),
            ("frac", 3) => SizeSel::Frac(p[1].parse().ok()?, p[2].parse().ok()?),
            _ => return None,
        })
    }

    pub fn class(&self) -> &'static str {
        match self {
            SizeSel::Zero => "zero",
            SizeSel::Abs(_) => "abs",
            SizeSel::FreePlus(d) if *d < 0 => "free-",
            SizeSel::FreePlus(0) => "free0",
            SizeSel::FreePlus(_) => "free+",
            SizeSel::MaxPlus(d) if *d < 0 => "max-",
            SizeSel::MaxPlus(0) => "max0",
            SizeSel::MaxPlus(_) => "max+",
            SizeSel::NeedEvict(_, d) if *d < 0 => "evict-",
            SizeSel::NeedEvict(_, 0) => "evict0",
            SizeSel::NeedEvict(_, _) => "evict+",
            SizeSel::Frac(..) => "frac",
        }
    }
}

impl LimSel {
    pub fn to_text(&self) -> String {
        match self {
            LimSel::Zero => "zero".into(),
            LimSel::Abs(n) => format!("abs:{}", n),
            LimSel::CurPlus(d) => format!("cur:{}", sgn(*d)),
            LimSel::KeepMru(n, d) => format!("keep:{}:{}", n, sgn(*d)),
            LimSel::Ents(n, d) => format!("ents:{}:{}", n, sgn(*d)),
            LimSel::Max => "max".into(),
            LimSel::MaxMinus(d) => format!("maxminus:{}", d),
            LimSel::Pow(e, d) => format!("pow:{}:{}", e, sgn(*d)),
            LimSel::ThreeQuarters(d) => format!("threeq:{}", sgn(*d)),
        }
    }

    pub fn from_text(s: &str) -> Option<LimSel> {
        let p: Vec<&str> = s.split(':').collect();
        Some(match (p[0], p.len()) {
            ("zero", 1) => LimSel::Zero,
            ("abs", 2) => LimSel::Abs(p[1].parse().ok()?),
            ("cur", 2) => LimSel::CurPlus(p[1].parse().ok()?),
            ("keep", 3) => LimSel::KeepMru(p[1].parse().ok()?, p[2].parse().ok()?),
            ("ents", 3) => LimSel::Ents(p[1].parse().ok()?, p[2].parse().ok()?),
            ("max", 1) => LimSel::Max,
            ("maxminus", 2) => LimSel::MaxMinus(p[1].parse().ok()?),
            ("pow", 3) => LimSel::Pow(p[1].parse().ok()?, p[2].parse().ok()?),
            ("threeq", 2) => LimSel::ThreeQuarters(p[1].parse().ok()?),
            _ => return None,
        })
    }

    pub fn class(&self) -> &'static str {
        match self {
            LimSel::Zero => "zero",
            LimSel::Abs(_) => "abs",
            LimSel::CurPlus(d) if *d < 0 => "cur-",
            LimSel::CurPlus(0) => "cur0",
            LimSel::CurPlus(_) => "cur+",
            LimSel::KeepMru(_, d) if *d < 0 => "keep-",
            LimSel::KeepMru(_, 0) => "keep0",
            LimSel::KeepMru(_, _) => "keep+",
            LimSel::Ents(..) => "ents",
            LimSel::Max => "max",
            LimSel::MaxMinus(_) => "maxminus",
            LimSel::Pow(..) | LimSel::ThreeQuarters(_) => "giant",
        }
    }
}

impl CapArg {
    pub fn to_text(&self) -> String {
        match self {
            CapArg::Zero => "zero".into(),
            CapArg::Abs(n) => format!("abs:{}", n),
            CapArg::LenPlus(d) => format!("len:{}", sgn(*d)),
            CapArg::CapPlus(d) => format!("cap:{}", sgn(*d)),
            CapArg::Pow2Plus(e, d) => format!("pow2:{}:{}", e, sgn(*d)),
            CapArg::Max => "max".into(),
            CapArg::MaxDiv => "maxdiv".into(),
        }
    }

    pub fn from_text(s: &str) -> Option<CapArg> {
        let p: Vec<&str> = s.split(':').collect();
        Some(match (p[0], p.len()) {
            ("zero", 1) => CapArg::Zero,
            ("abs", 2) => CapArg::Abs(p[1].parse().ok()?),
            ("len", 2) => CapArg::LenPlus(p[1].parse().ok()?),
            ("cap", 2) => CapArg::CapPlus(p[1].parse().ok()?),
            ("pow2", 3) => CapArg::Pow2Plus(p[1].parse().ok()?, p[2].parse().ok()?),
            ("max", 1) => CapArg::Max,
            ("maxdiv", 1) => CapArg::MaxDiv,
            _ => return None,
        })
    }

    pub fn class(&self) -> &'static str {
        match self {
            CapArg::Zero => "zero",
            CapArg::Abs(_) => "abs",
            CapArg::LenPlus(_) => "len",
            CapArg::CapPlus(_) => "cap",
            CapArg::Pow2Plus(..) => "pow2",
            CapArg::Max => "max",
            CapArg::MaxDiv => "maxdiv",
        }
    }

    pub fn huge(&self) -> bool {
        matches!(self, CapArg::Max | CapArg::MaxDiv)
    }
}

pub fn calls_text(calls: &[Call]) -> String {
    if calls.is_empty() {
        "-".into()
    }
    else {
        calls.iter().map(|c| c.letter()).collect()
    }
}

fn calls_from(s: &str) -> Option<Vec<Call>> {
    if s == "-" {
        return Some(vec![]);
    }
    let mut out = Vec::new();
    let mut it = s.chars();
    while let Some(c) = it.next() {
        out.push(match c {
            'f' => Call::Next,
            'b' => Call::NextBack,
            'h' => Call::Hint,
            'n' => Call::Nth(it.next()?.to_digit(16)? as u8),
            'm' => Call::NthBack(it.next()?.to_digit(16)? as u8),
            _ => return None,
        });
    }
    Some(out)
}

/// plain next / next_back patterns
pub fn calls_of(bits: &[bool]) -> Vec<Call> {
    bits.iter().map(|&b| if b { Call::NextBack } else { Call::Next }).collect()
}

impl Op {
    pub fn name(&self) -> &'static str {
        match self {
            Op::Insert { .. } => "insert",
            Op::TryInsert { .. } => "try_insert",
            Op::Get { .. } => "get",
            Op::GetEntry { .. } => "get_entry",
            Op::GetLru => "get_lru",
            Op::Touch { .. } => "touch",
            Op::Peek { .. } => "peek",
            Op::PeekEntry { .. } => "peek_entry",
            Op::PeekLru => "peek_lru",
            Op::PeekMru => "peek_mru",
            Op::Contains { .. } => "contains",
            Op::Remove { .. } => "remove",
            Op::RemoveEntry { .. } => "remove_entry",
            Op::RemoveLru => "remove_lru",
            Op::RemoveMru => "remove_mru",
            Op::Mutate { .. } => "mutate",
            Op::SetMaxSize(_) => "set_max_size",
            Op::Retain { .. } => "retain",
            Op::Clear => "clear",
            Op::Reserve(_) => "reserve",
            Op::TryReserve { .. } => "try_reserve",
            Op::ShrinkTo(_) => "shrink_to",
            Op::ShrinkToFit => "shrink_to_fit",
            Op::IterWalk { .. } => "iterwalk",
            Op::Debug => "debug",
            Op::Clone(_) => "clone",
            Op::Scalars => "scalars",
            Op::InsertMany { .. } => "insert_many",
            Op::Churn { .. } => "churn",
            Op::Side(_) => "side",
            Op::Inject { .. } => "inject",
        }
    }

    pub fn to_line(&self) -> String {
        match self {
            Op::Insert { key, kheap, size } | Op::TryInsert { key, kheap, size } =>
                format!("{} {} {} {}", self.name(), key.to_text(), kheap, size.to_text()),
            Op::Get { key, form } | Op::GetEntry { key, form } | Op::Touch { key, form }
            | Op::Peek { key, form } | Op::PeekEntry { key, form }
            | Op::Contains { key, form } | Op::Remove { key, form }
            | Op::RemoveEntry { key, form } =>
                format!("{} {} {}", self.name(), key.to_text(), form.to_text()),
            Op::GetLru | Op::PeekLru | Op::PeekMru | Op::RemoveLru | Op::RemoveMru
            | Op::Clear | Op::ShrinkToFit | Op::Debug | Op::Scalars =>
                self.name().to_string(),
            Op::Mutate { key, form, size } =>
                format!("mutate {} {} {}", key.to_text(), form.to_text(), size.to_text()),
            Op::SetMaxSize(l) => format!("set_max_size {}", l.to_text()),
            Op::Retain { mask, by_key } =>
                format!("retain {:#x} {}", mask, if *by_key { "key" } else { "visit" }),
            Op::Reserve(a) => format!("reserve {}", a.to_text()),
            Op::TryReserve { arg, fail_alloc } =>
                format!("try_reserve {} {}", arg.to_text(), if *fail_alloc { "refuse" } else { "ok" }),
            Op::ShrinkTo(a) => format!("shrink_to {}", a.to_text()),
            Op::IterWalk { kind, calls, rest, fate } =>
                format!("iterwalk {} {} {} {}", kind.name(), calls_text(calls), rest.to_text(), fate.to_text()),
            Op::Clone(m) => format!("clone {}",
                match m { CloneMode::Check => "check", CloneMode::Swap => "swap", CloneMode::Fork => "fork", CloneMode::From => "from", CloneMode::Unwinding => "unwinding" }),
            Op::InsertMany { count, vheap } => format!("insert_many {} {}", count, vheap),
            Op::Churn { rounds, which } => format!("churn {} {}", rounds, which),
            Op::Side(n) => format!("side {}", n),
            Op::Inject { cb, nth, late } =>
                format!("inject {} {} {}", cb.name(), nth, if *late { "late" } else { "early" }),
        }
    }

    pub fn from_line(line: &str) -> Option<Op> {
        let t: Vec<&str> = line.split_whitespace().collect();
        if t.is_empty() {
            return None;
        }
        let key_form = |t: &[&str]| -> Option<(KeySel, Form)> {
            Some((KeySel::from_text(t.get(1)?)?, Form::from_text(t.get(2)?)?))
        };
        Some(match t[0] {
            "insert" => Op::Insert {
                key: KeySel::from_text(t.get(1)?)?,
                kheap: t.get(2)?.parse().ok()?,
                size: SizeSel::from_text(t.get(3)?)?,
            },
            "try_insert" => Op::TryInsert {
                key: KeySel::from_text(t.get(1)?)?,
                kheap: t.get(2)?.parse().ok()?,
                size: SizeSel::from_text(t.get(3)?)?,
            },
            "get" => { let (key, form) = key_form(&t)?; Op::Get { key, form } },
            "get_entry" => { let (key, form) = key_form(&t)?; Op::GetEntry { key, form } },
            "touch" => { let (key, form) = key_form(&t)?; Op::Touch { key, form } },
            "peek" => { let (key, form) = key_form(&t)?; Op::Peek { key, form } },
            "peek_entry" => { let (key, form) = key_form(&t)?; Op::PeekEntry { key, form } },
            "contains" => { let (key, form) = key_form(&t)?; Op::Contains { key, form } },
            "remove" => { let (key, form) = key_form(&t)?; Op::Remove { key, form } },
            "remove_entry" => { let (key, form) = key_form(&t)?; Op::RemoveEntry { key, form } },
            "get_lru" => Op::GetLru,
            "peek_lru" => Op::PeekLru,
            "peek_mru" => Op::PeekMru,
            "remove_lru" => Op::RemoveLru,
            "remove_mru" => Op::RemoveMru,
            "clear" => Op::Clear,
            "shrink_to_fit" => Op::ShrinkToFit,
            "debug" => Op::Debug,
            "scalars" => Op::Scalars,
            "mutate" => {
                let (key, form) = key_form(&t)?;
                Op::Mutate { key, form, size: SizeSel::from_text(t.get(3)?)? }
            },
            "set_max_size" => Op::SetMaxSize(LimSel::from_text(t.get(1)?)?),
            "retain" => {
                let m = t.get(1)?;
                let mask = if let Some(h) = m.strip_prefix("0x") {
                    u64::from_str_radix(h, 16).ok()?
                } else {
                    m.parse().ok()?
                };
                Op::Retain { mask, by_key: match *t.get(2)? { "key" => true, "visit" => false, _ => return None } }
            },
            "reserve" => Op::Reserve(CapArg::from_text(t.get(1)?)?),
            "try_reserve" => Op::TryReserve {
                arg: CapArg::from_text(t.get(1)?)?,
                fail_alloc: match *t.get(2)? { "refuse" => true, "ok" => false, _ => return None },
            },
            "shrink_to" => Op::ShrinkTo(CapArg::from_text(t.get(1)?)?),
            "iterwalk" => Op::IterWalk {
                kind: IterKind::from_name(t.get(1)?)?,
                calls: calls_from(t.get(2)?)?,
                rest: Rest::from_text(t.get(3)?)?,
                fate: Fate::from_text(t.get(4)?)?,
            },
            "clone" => Op::Clone(match *t.get(1)? {
                "check" => CloneMode::Check, "swap" => CloneMode::Swap, "fork" => CloneMode::Fork,
                "from" => CloneMode::From,
                "unwinding" => CloneMode::Unwinding,
                _ => return None,
            }),
            "insert_many" => Op::InsertMany { count: t.get(1)?.parse().ok()?, vheap: t.get(2)?.parse().ok()? },
            "churn" => Op::Churn { rounds: t.get(1)?.parse().ok()?, which: t.get(2)?.parse().ok()? },
            "side" => Op::Side(t.get(1)?.parse().ok()?),
            "inject" => Op::Inject {
                cb: Cb::from_name(t.get(1)?)?,
                nth: t.get(2)?.parse().ok()?,
                late: match *t.get(3)? { "late" => true, "early" => false, _ => return None },
            },
            _ => return None,
        })
    }
}

impl Config {
    pub fn to_line(&self) -> String {
        format!("config hasher={} cap={} limit={} universe={}",
            self.hasher.to_text(),
            match self.capacity { None => "none".to_string(), Some(c) => c.to_string() },
            self.limit.to_text(), self.universe)
    }

    pub fn from_line(line: &str) -> Option<Config> {
        let mut hasher = None;
        let mut capacity = None;
        let mut limit = None;
        let mut universe = None;
        let mut it = line.split_whitespace();
        if it.next()? != "config" {
            return None;
        }
        for kv in it {
            let (k, v) = kv.split_once('=')?;
            match k {
                "hasher" => hasher = Some(HKind::from_text(v)?),
                "cap" => capacity = Some(if v == "none" { None } else { Some(v.parse().ok()?) }),
                "limit" => limit = Some(LimSel::from_text(v)?),
                "universe" => universe = Some(v.parse().ok()?),
                _ => return None,
            }
        }
        Some(Config { hasher: hasher?, capacity: capacity?, limit: limit?, universe: universe? })
    }
}

impl Case {
    pub fn to_text(&self) -> String {
        let mut s = String::new();
        s.push_str(&self.config.to_line());
        s.push('\n');
        for op in &self.ops {
            s.push_str(&op.to_line());
            s.push('\n');
        }
        s
    }

    /// Lines starting with '#' and blank lines are ignored.
    pub fn from_text(text: &str) -> Result<Case, String> {
        let mut config = None;
        let mut ops = Vec::new();
        for (i, raw) in text.lines().enumerate() {
            let line = raw.trim();
            if line.is_empty() || line.starts_with('#') {
                continue;
            }
            if line.starts_with("config") {
                config = Some(Config::from_line(line)
                    .ok_or_else(|| format!("line {}: bad config: {}", i + 1, line))?);
            }
            else {
                ops.push(Op::from_line(line)
                    .ok_or_else(|| format!("line {}: bad op: {}", i + 1, line))?);
            }
        }
        Ok(Case { config: config.ok_or("no config line")?, ops })
    }
}

// ----------------------------------------------------------------- bytes

pub struct Cursor<'a> {
    data: &'a [u8],
    pos: usize,
}

impl<'a> Cursor<'a> {
    pub fn new(data: &'a [u8]) -> Cursor<'a> {
        Cursor { data, pos: 0 }
    }

    pub fn u8(&mut self) -> Option<u8> {
        let b = *self.data.get(self.pos)?;
        self.pos += 1;
        Some(b)
    }

    pub fn u16(&mut self) -> Option<u16> {
        let lo = self.u8()? as u16;
        let hi = self.u8()? as u16;
        Some(lo | (hi << 8))
    }

    pub fn remaining(&self) -> usize {
        self.data.len() - self.pos
    }
}

fn dec_key(c: &mut Cursor) -> Option<KeySel> {
    let tag = c.u8()?;
    let v = c.u16()?;
    Some(match tag % 5 {
        0 => KeySel::Lru,
        1 => KeySel::Mru,
        2 => KeySel::Nth(v),
        3 => KeySel::Absent(v),
        _ => KeySel::Raw(v),
    })
}

fn enc_key(k: &KeySel, out: &mut Vec<u8>) {
    let (tag, v) = match k {
        KeySel::Lru => (0, 0),
        KeySel::Mru => (1, 0),
        KeySel::Nth(v) => (2, *v),
        KeySel::Absent(v) => (3, *v),
        KeySel::Raw(v) => (4, *v),
    };
    out.push(tag);
    out.extend_from_slice(&v.to_le_bytes());
}

fn dec_form(c: &mut Cursor) -> Option<Form> {
    Some(if c.u8()? & 1 == 0 { Form::Owned } else { Form::Borrowed })
}

fn enc_form(f: &Form, out: &mut Vec<u8>) {
    out.push(match f { Form::Owned => 0, Form::Borrowed => 1 });
}

fn small(d: u8) -> i8 {
    // maps a byte to -3..=3 so that boundary offsets are dense
    (d % 7) as i8 - 3
}

fn unsmall(d: i8) -> u8 {
    (d.clamp(-3, 3) + 3) as u8
}

fn dec_size(c: &mut Cursor) -> Option<SizeSel> {
    let tag = c.u8()?;
    let a = c.u8()?;
    let b = c.u8()?;
    if tag >= 250 {
        return Some(SizeSel::Frac(1 + a % 3, small(b)));
    }
    Some(match tag % 5 {
        0 => SizeSel::Zero,
        1 => SizeSel::Abs(a as u32 | ((b as u32) << 8)),
        2 => SizeSel::FreePlus(small(a)),
        3 => SizeSel::MaxPlus(small(a)),
        _ => SizeSel::NeedEvict(a % 8, small(b)),
    })
}

fn enc_size(s: &SizeSel, out: &mut Vec<u8>) {
    match s {
        SizeSel::Zero => out.extend_from_slice(&[0, 0, 0]),
        SizeSel::Abs(n) => {
            let n = (*n).min(65535);
            out.extend_from_slice(&[1, n as u8, (n >> 8) as u8]);
        },
        SizeSel::FreePlus(d) => out.extend_from_slice(&[2, unsmall(*d), 0]),
        SizeSel::MaxPlus(d) => out.extend_from_slice(&[3, unsmall(*d), 0]),
        SizeSel::NeedEvict(n, d) => out.extend_from_slice(&[4, *n % 8, unsmall(*d)]),
        SizeSel::Frac(k, d) => out.extend_from_slice(&[250, (*k + 2) % 3, unsmall(*d)]),
    }
}

fn dec_lim(c: &mut Cursor) -> Option<LimSel> {
    let tag = c.u8()?;
    let a = c.u8()?;
    let b = c.u8()?;
    if tag >= 250 {
        return Some(if a % 3 == 2 { LimSel::ThreeQuarters(small(b)) } else { LimSel::Pow(62 + a % 2, small(b)) });
    }
    Some(match tag % 7 {
        0 => LimSel::Zero,
        1 => LimSel::Abs(a as u32 | ((b as u32) << 8)),
        2 => LimSel::CurPlus(small(a)),
        3 => LimSel::KeepMru(a % 8, small(b)),
        4 => LimSel::Ents(a as u16, small(b)),
        5 => LimSel::Max,
        _ => LimSel::MaxMinus(a),
    })
}

fn enc_lim(l: &LimSel, out: &mut Vec<u8>) {
    match l {
        LimSel::Zero => out.extend_from_slice(&[0, 0, 0]),
        LimSel::Abs(n) => {
            let n = (*n).min(65535);
            out.extend_from_slice(&[1, n as u8, (n >> 8) as u8]);
        },
        LimSel::CurPlus(d) => out.extend_from_slice(&[2, unsmall(*d), 0]),
        LimSel::KeepMru(n, d) => out.extend_from_slice(&[3, *n % 8, unsmall(*d)]),
        LimSel::Ents(n, d) => out.extend_from_slice(&[4, (*n).min(255) as u8, unsmall(*d)]),
        LimSel::Max => out.extend_from_slice(&[5, 0, 0]),
        LimSel::MaxMinus(d) => out.extend_from_slice(&[6, *d, 0]),
        LimSel::Pow(e, d) => out.extend_from_slice(&[250, if *e >= 63 { 1 } else { 0 }, unsmall(*d)]),
        LimSel::ThreeQuarters(d) => out.extend_from_slice(&[250, 2, unsmall(*d)]),
    }
}

fn dec_cap(c: &mut Cursor) -> Option<CapArg> {
    let tag = c.u8()?;
    let a = c.u8()?;
    let b = c.u8()?;
    Some(match tag % 7 {
        0 => CapArg::Zero,
        1 => CapArg::Abs(a as u32 | ((b as u32 & 0x0f) << 8)),
        2 => CapArg::LenPlus(small(a)),
        3 => CapArg::CapPlus(small(a)),
        4 => CapArg::Pow2Plus(a % 13, small(b)),
        5 => CapArg::Max,
        _ => CapArg::MaxDiv,
    })
}

fn enc_cap(a: &CapArg, out: &mut Vec<u8>) {
    match a {
        CapArg::Zero => out.extend_from_slice(&[0, 0, 0]),
        CapArg::Abs(n) => {
            let n = (*n).min(4095);
            out.extend_from_slice(&[1, n as u8, (n >> 8) as u8]);
        },
        CapArg::LenPlus(d) => out.extend_from_slice(&[2, unsmall(*d), 0]),
        CapArg::CapPlus(d) => out.extend_from_slice(&[3, unsmall(*d), 0]),
        CapArg::Pow2Plus(e, d) => out.extend_from_slice(&[4, *e % 13, unsmall(*d)]),
        CapArg::Max => out.extend_from_slice(&[5, 0, 0]),
        CapArg::MaxDiv => out.extend_from_slice(&[6, 0, 0]),
    }
}

pub const N_OPCODES: u8 = 31;

fn dec_op(c: &mut Cursor) -> Option<Op> {
    let code = c.u8()? % N_OPCODES;
    Some(match code {
        0 => Op::Insert { key: dec_key(c)?, kheap: c.u8()? % 4, size: dec_size(c)? },
        1 => Op::TryInsert { key: dec_key(c)?, kheap: c.u8()? % 4, size: dec_size(c)? },
        2 => Op::Get { key: dec_key(c)?, form: dec_form(c)? },
        3 => Op::GetEntry { key: dec_key(c)?, form: dec_form(c)? },
        4 => Op::GetLru,
        5 => Op::Touch { key: dec_key(c)?, form: dec_form(c)? },
        6 => Op::Peek { key: dec_key(c)?, form: dec_form(c)? },
        7 => Op::PeekEntry { key: dec_key(c)?, form: dec_form(c)? },
        8 => Op::PeekLru,
        9 => Op::PeekMru,
        10 => Op::Contains { key: dec_key(c)?, form: dec_form(c)? },
        11 => Op::Remove { key: dec_key(c)?, form: dec_form(c)? },
        12 => Op::RemoveEntry { key: dec_key(c)?, form: dec_form(c)? },
        13 => Op::RemoveLru,
        14 => Op::RemoveMru,
        15 => Op::Mutate { key: dec_key(c)?, form: dec_form(c)?, size: dec_size(c)? },
        16 => Op::SetMaxSize(dec_lim(c)?),
        17 => {
            let lo = c.u16()? as u64;
            let hi = c.u16()? as u64;
            let m = lo | (hi << 16);
            Op::Retain { mask: m | (m << 32), by_key: c.u8()? & 1 == 1 }
        },
        18 => Op::Clear,
        19 => Op::Reserve(match dec_cap(c)? {
            // the panicking arguments of reserve are outside its contract
            a if a.huge() => CapArg::LenPlus(1),
            a => a,
        }),
        20 => Op::TryReserve { arg: dec_cap(c)?, fail_alloc: c.u8()? % 4 == 0 },
        21 => Op::ShrinkTo(dec_cap(c)?),
        22 => Op::ShrinkToFit,
        23 => {
            let kind = ITER_KINDS[(c.u8()? % 7) as usize];
            let n = (c.u8()? % 12) as usize;
            let bits = c.u16()?;
            let mut calls: Vec<Call> = (0..n).map(|i| if bits >> i & 1 == 1 { Call::NextBack } else { Call::Next }).collect();
            let rf = c.u8()?;
            let mut rest = match rf % 4 { 0 => Rest::Stop, 1 => Rest::Front, 2 => Rest::Back, _ => Rest::Alternate };
            let mut fate = if (rf >> 2) % 3 == 0 { Fate::Forget } else { Fate::Drop };
            if rf >= 128 {
                // positional calls and finishing consumers
                let x = c.u8()?;
                let y = c.u8()?;
                if x >= 192 {
                    fate = Fate::Unwind((x >> 2) % 4);
                }
                if n > 0 && x % 4 != 0 {
                    let at = (x >> 2) as usize % n;
                    let back = matches!(calls[at], Call::NextBack);
                    calls[at] = match x % 4 { 1 | 2 => if back { Call::NthBack(y % 8) } else { Call::Nth(y % 8) }, _ => Call::Hint };
                }
                rest = match (y >> 3) % 12 {
                    0 | 1 | 2 => rest, 3 => Rest::Count, 4 => Rest::Last, 5 => Rest::Fold, 6 => Rest::RFold,
                    7 => Rest::Skip(y >> 7 | (y & 1) << 1), 8 => Rest::StepBy(y & 3), 9 => Rest::RevStepBy(y & 3),
                    _ => Rest::TakeThenFront(y & 3),
                };
            }
            Op::IterWalk { kind, calls, rest, fate }
        },
        24 => Op::Debug,
        25 => Op::Clone(match c.u8()? % 5 { 0 => CloneMode::Check, 1 => CloneMode::Swap, 2 => CloneMode::Fork, 3 => CloneMode::From, _ => CloneMode::Unwinding }),
        26 => Op::Scalars,
        27 => Op::InsertMany { count: c.u8()? as u16, vheap: c.u8()? as u16 },
        28 => Op::Churn { rounds: c.u8()? as u16, which: c.u8()? % 3 },
        29 => Op::Side(c.u8()? % 3),
        _ => {
            let cb = crate::tracked::CB_KINDS[(c.u8()? % 11) as usize];
            let b = c.u8()?;
            Op::Inject { cb, nth: (b % 32) as u16 + 1, late: b >= 128 }
        },
    })
}

fn enc_op(op: &Op, out: &mut Vec<u8>) {
    match op {
        Op::Insert { key, kheap, size } => { out.push(0); enc_key(key, out); out.push(*kheap % 4); enc_size(size, out); },
        Op::TryInsert { key, kheap, size } => { out.push(1); enc_key(key, out); out.push(*kheap % 4); enc_size(size, out); },
        Op::Get { key, form } => { out.push(2); enc_key(key, out); enc_form(form, out); },
        Op::GetEntry { key, form } => { out.push(3); enc_key(key, out); enc_form(form, out); },
        Op::GetLru => out.push(4),
        Op::Touch { key, form } => { out.push(5); enc_key(key, out); enc_form(form, out); },
        Op::Peek { key, form } => { out.push(6); enc_key(key, out); enc_form(form, out); },
        Op::PeekEntry { key, form } => { out.push(7); enc_key(key, out); enc_form(form, out); },
        Op::PeekLru => out.push(8),
        Op::PeekMru => out.push(9),
        Op::Contains { key, form } => { out.push(10); enc_key(key, out); enc_form(form, out); },
        Op::Remove { key, form } => { out.push(11); enc_key(key, out); enc_form(form, out); },
        Op::RemoveEntry { key, form } => { out.push(12); enc_key(key, out); enc_form(form, out); },
        Op::RemoveLru => out.push(13),
        Op::RemoveMru => out.push(14),
        Op::Mutate { key, form, size } => { out.push(15); enc_key(key, out); enc_form(form, out); enc_size(size, out); },
        Op::SetMaxSize(l) => { out.push(16); enc_lim(l, out); },
        Op::Retain { mask, by_key } => {
            out.push(17);
            out.extend_from_slice(&(*mask as u32).to_le_bytes());
            out.push(*by_key as u8);
        },
        Op::Clear => out.push(18),
        Op::Reserve(a) => { out.push(19); enc_cap(a, out); },
        Op::TryReserve { arg, fail_alloc } => { out.push(20); enc_cap(arg, out); out.push(if *fail_alloc { 0 } else { 1 }); },
        Op::ShrinkTo(a) => { out.push(21); enc_cap(a, out); },
        Op::ShrinkToFit => out.push(22),
        Op::IterWalk { kind, calls, rest, fate } => {
            out.push(23);
            out.push(ITER_KINDS.iter().position(|k| k == kind).unwrap() as u8);
            let n = calls.len().min(11);
            out.push(n as u8);
            let mut bits = 0u16;
            for (i, c) in calls.iter().take(n).enumerate() {
                if c.back() { bits |= 1 << i; }
            }
            out.extend_from_slice(&bits.to_le_bytes());
            let r = match rest { Rest::Front => 1, Rest::Back => 2, Rest::Alternate => 3, _ => 0 };
            let f = match fate { Fate::Forget => 0, _ => 1 };
            // the byte form keeps at most one positional call; richer walks
            // are approximated (the fuzzer mutates from there)
            let special = calls.iter().take(n).position(|c| !matches!(c, Call::Next | Call::NextBack));
            if special.is_none() && !rest.finishing() {
                out.push(r | (f << 2));
            }
            else {
                out.push(r | (f << 2) | 128);
                let (x, arg) = match special.map(|at| (at, calls[at])) {
                    Some((at, Call::Nth(k))) | Some((at, Call::NthBack(k))) => (1 | (at as u8) << 2, k % 8),
                    Some((at, _)) => (3 | (at as u8) << 2, 0),
                    None => (0, 0),
                };
                out.push(x);
                let sel: u8 = match rest {
                    Rest::Count => 3, Rest::Last => 4, Rest::Fold => 5, Rest::RFold => 6, Rest::Skip(_) => 7,
                    Rest::StepBy(_) => 8, Rest::RevStepBy(_) => 9, Rest::TakeThenFront(_) => 10, _ => 0,
                };
                out.push(arg | sel << 3);
            }
        },
        Op::Debug => out.push(24),
        Op::Clone(m) => { out.push(25); out.push(match m { CloneMode::Check => 0, CloneMode::Swap => 1, CloneMode::Fork => 2, CloneMode::From => 3, CloneMode::Unwinding => 4 }); },
        Op::Scalars => out.push(26),
        Op::InsertMany { count, vheap } => { out.push(27); out.push((*count).min(255) as u8); out.push((*vheap).min(255) as u8); },
        Op::Churn { rounds, which } => { out.push(28); out.push((*rounds).min(255) as u8); out.push(*which % 3); },
        Op::Side(n) => { out.push(29); out.push(*n % 3); },
        Op::Inject { cb, nth, late } => {
            out.push(30);
            out.push(crate::tracked::CB_KINDS.iter().position(|k| k == cb).unwrap_or(0) as u8);
            let n = ((*nth).clamp(1, 32) - 1) as u8;
            out.push(n | if *late { 128 } else { 0 });
        },
    }
}

pub const UNIVERSES: [u16; 5] = [4, 16, 64, 256, 1024];
pub const CAPACITIES: [Option<u32>; 14] = [
    None, Some(0), Some(1), Some(3), Some(4), Some(7), Some(8), Some(14),
    Some(15), Some(28), Some(29), Some(56), Some(100), Some(1000),
];

impl Case {
    /// Total: every byte string is a case; the sequence ends where the bytes do.
    pub fn from_bytes(data: &[u8]) -> Case {
        let mut c = Cursor::new(data);
        let hasher = { let b = c.u8().unwrap_or(0); if b == 255 { crate::hashers::HKind::OneOff } else { crate::hashers::ALL_HKINDS[(b % 9) as usize] } };
        let capacity = CAPACITIES[(c.u8().unwrap_or(0) % 14) as usize];
        let limit = dec_lim(&mut c).unwrap_or(LimSel::Ents(4, 0));
        let limit = match limit {
            // state-relative limits mean nothing for an empty cache
            LimSel::CurPlus(d) => LimSel::Ents(3, d),
            LimSel::KeepMru(n, d) => LimSel::Ents(n as u16, d),
            l => l,
        };
        let universe = UNIVERSES[(c.u8().unwrap_or(0) % 5) as usize];
        let mut ops = Vec::new();
        while c.remaining() > 0 && ops.len() < 4096 {
            match dec_op(&mut c) {
                Some(op) => ops.push(op),
                None => break,
            }
        }
        Case { config: Config { hasher, capacity, limit, universe }, ops }
    }

    pub fn to_bytes(&self) -> Vec<u8> {
        let mut out = Vec::new();
        out.push(if self.config.hasher == crate::hashers::HKind::OneOff { 255 } else { crate::hashers::ALL_HKINDS.iter().position(|h| *h == self.config.hasher).unwrap_or(0) as u8 });
        out.push(CAPACITIES.iter().position(|c| *c == self.config.capacity).unwrap_or(0) as u8);
        enc_lim(&self.config.limit, &mut out);
        out.push(UNIVERSES.iter().position(|u| *u == self.config.universe).unwrap_or(1) as u8);
        for op in &self.ops {
            enc_op(op, &mut out);
        }
        out
    }
}
