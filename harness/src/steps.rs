//! Per-operation semantics: expected outcome from the model, execution on the
//! real cache under `catch_unwind`, and the pre/post-state oracles.

use std::collections::BTreeSet;
use std::panic::{catch_unwind, AssertUnwindSafe};

use crate::ck;
use crate::hashers;
use crate::interp::*;
use crate::model::Ent;
use crate::tracked::{self, Cb, Owner, TKey, TVal, INJECTED, NCB};

pub struct Run<R> {
    pub ret: Option<R>,
    pub counts: [u64; NCB],
    pub builds: u64,
    pub panic: Option<String>,
    pub injected: bool,
}

pub struct Pre {
    pub obs: Obs,
    pub fp: Vec<usize>,
    pub tid: (usize, usize),
    pub ents: Vec<Ent>,
}

#[derive(Default)]
pub struct Info {
    pub name: &'static str,
    /// key the operation is about (inserted / accessed / mutated)
    pub subject: Option<u16>,
    /// the subject must end up most-recently-used if it is still present
    pub promoting: bool,
    /// the operation may evict least-recently-used entries to make room
    pub evicting: bool,
    /// keys the operation was asked to remove
    pub asked: BTreeSet<u16>,
    /// nothing at all may change (tags of the properties that say so)
    pub unchanged: Vec<&'static str>,
    /// contents, order and sizes must stay (capacity operations)
    pub transparent: bool,
    /// the operation may rebuild the table
    pub may_rebuild: bool,
    /// the operation must not hash at all
    pub zero_hash: bool,
    /// the operation reported an error that promises the subject is gone/absent
    pub subject_rejected: bool,
    pub is_insert: bool,
    /// size of the incoming/grown entry (for the C03 exact-fit rule)
    pub incoming: Option<usize>,
}

impl World {
    pub fn pre(&self) -> Pre {
        let s = self.side();
        Pre {
            obs: s.last_obs.clone(),
            fp: s.last_fp.clone(),
            tid: s.cache().verif_table_identity(),
            ents: s.model.order.clone(),
        }
    }

    /// Runs `f` on the active cache inside a callback window under
    /// `catch_unwind`, with a pending injection armed.
    pub fn run<R>(&mut self, allowed: &[u64], f: impl FnOnce(&mut Cache) -> R) -> Run<R> {
        let inject = self.pending_inject.take();
        let a = self.active;
        let mut cache = self.sides[a].cache.take().expect("cache present");
        hashers::reset_builds();
        tracked::open_window(allowed);
        if let Some((cb, nth, late)) = inject {
            tracked::arm(cb, nth as u64);
            if cb == Cb::Closure && late {
                tracked::arm_sticky();
            }
        }
        let r = catch_unwind(AssertUnwindSafe(|| f(&mut cache)));
        let still_armed = tracked::disarm();
        let counts = tracked::close_window();
        let builds = hashers::builds();
        self.last_counts = counts;
        self.sides[a].cache = Some(cache);
        match r {
            Ok(ret) => Run { ret: Some(ret), counts, builds, panic: None, injected: false },
            Err(p) => {
                let msg = tracked::panic_message(&*p);
                let injected = msg.contains(INJECTED) && inject.is_some() && !still_armed;
                Run { ret: None, counts, builds, panic: Some(msg), injected }
            }
        }
    }

    /// An unexpected (not injected) panic inside a cache operation.
    pub fn unexpected_panic(&mut self, name: &str, msg: &str) {
        self.unexpected_panic_ev(name, msg, false);
    }

    /// `evicting`: the operation had to evict to make room
    pub fn unexpected_panic_ev(&mut self, name: &str, msg: &str, evicting: bool) {
        let mut tags = if msg.contains("overflow") {
            vec!["C02", "C01"]
        }
        else {
            vec!["C07", "C04"]
        };
        // a documented-total operation that panics also breaks its own contract
        match name {
            // an insertion that was due to evict (or to be refused) and panics
            // instead has not evicted "the shortest run ... that makes everything fit"
            "insert" | "try_insert" => tags.push("C10"),
            "mutate" => tags.push("C11"),
            "retain" => tags.push("C15"),
            "clone" => tags.push("C14"),
            "reserve" | "try_reserve" | "shrink_to" | "shrink_to_fit" => tags.push("C13"),
            "iterwalk" => tags.push("C12"),
            "set_max_size" => tags.push("C03"),
            _ => { },
        }
        if evicting {
            // due to evict "the shortest run ... whose removal makes everything fit", it panicked instead
            tags.push("C03");
        }
        self.fail(tags, format!("panic:{}", name), format!("{} panicked: {}", name, msg));
    }

    /// After an injected panic: the structural promises of C16, then the
    /// model is re-synchronised from the observed state.
    pub fn after_injected_panic(&mut self, pre: &Pre, name: &'static str, cb: Cb, nth: u16,
            lost_ok: &BTreeSet<u16>, strict_contents: bool) {
        self.leaks_allowed = true;
        self.stats.ev("inject.fired");
        if cb.is_drop() {
            self.drop_panic_seen = true;
        }
        else {
            self.panic_seen = true;
        }
        self.collect_vios("injected panic");
        self.post_panic = true;
        let nfails = self.fails.len();
        let obs = self.observe_side(self.active, Level::Full, false);
        self.post_panic = false;
        // what is wrong right after a panic inside retain / mutate / clone is
        // also that operation's business
        let own: Option<&'static str> = match name { "retain" => Some("C15"), "mutate" => Some("C11"), "clone" => Some("C14"), _ => None };
        let readonly = matches!(name, "clone" | "peek" | "peek_entry" | "contains" | "peek_lru" | "peek_mru");
        for f in self.fails.iter_mut().skip(nfails) {
            if let Some(tag) = own {
                if !f.has(tag) { f.tags.push(tag); }
            }
            // a shared-reference operation must leave the cache as it was, panic or not
            if readonly && !f.has("C19") { f.tags.push("C19"); }
        }
        if cb.is_drop() {
            // A destructor is not among the callbacks C16 enumerates: what goes
            // wrong after a panicking destructor is judged by the properties that
            // are stated for every history - memory safety and coherence (C07),
            // exactly-once ownership (C06, leaks tolerated), consistent
            // bookkeeping of what remains (C02) - and by the operation's own.
            let extra: Option<&'static str> = match name { "clear" | "insert" | "set_max_size" | "mutate" => Some("C07"), "drain" | "into_iter" | "iterwalk" => Some("C12"), _ => None };
            for f in self.fails.iter_mut().skip(nfails) {
                f.tags.retain(|t| *t != "C16");
                if let Some(t) = extra { if !f.has(t) { f.tags.push(t); } }
                if f.tags.is_empty() { f.tags.push("C07"); }
                f.sig = format!("{}@drop-panic", f.sig);
            }
            self.stats.ev("inject.fired-in-destructor");
        }
        if readonly {
            if let Some(o) = &obs {
                let fp = self.side().cache().verif_fingerprint();
                if *o != pre.obs || fp != pre.fp {
                    self.fail(vec!["C19", "C16"], format!("panic-changed:{}", name),
                        format!("a panic inside {} (a shared-reference operation) changed the cache: before {} after {}",
                            name, summary(&pre.obs), summary(o)));
                }
            }
        }
        let obs = match obs {
            Some(o) => o,
            None => return,
        };
        let rebuilt = self.side().cache().verif_table_identity() != pre.tid;
        // closure / predicate panics: bound holds, nothing else lost
        if strict_contents {
            ck!(self, obs.cur <= obs.max, ["C16"], "panic-bound",
                "after a panic in the {} closure current_size {} exceeds max_size {}", name, obs.cur, obs.max);
            let before: Vec<u16> = pre.obs.keys();
            let expect: Vec<u16> = before.iter().copied().filter(|k| !lost_ok.contains(k)).collect();
            let mut now = obs.keys();
            let mut exp_sorted = expect.clone();
            now.sort();
            exp_sorted.sort();
            ck!(self, now == exp_sorted, ["C16"], "panic-lost",
                "after a panic in the {} closure the keys are {:?}, expected {:?}", name, brief(&now), brief(&exp_sorted));
        }
        if self.want("C16") && !cb.is_drop() {
            let changed = obs != pre.obs;
            let class = if nth == 1 { "1" } else if nth == 2 { "2" } else { "3+" };
            if changed || matches!(cb, Cb::Closure | Cb::Pred) || nth >= 2 {
                self.nontrivial("C16", format!("{}|{}|{}|{}", name, cb.name(), class,
                    if rebuilt { "rebuild" } else { "norebuild" }));
            }
        }
        // re-synchronise
        let e0 = self.e0;
        let mut desync = BTreeSet::new();
        let ents: Vec<Ent> = obs.items.iter().enumerate().map(|(i, it)| {
            let size = obs.sizes[i];
            if size != e0 + it.kheap + it.vheap {
                desync.insert(it.k);
            }
            Ent { k: it.k, key_id: it.key_id, val_id: it.val_id, kheap: it.kheap, vheap: it.vheap, tag: it.tag, size }
        }).collect();
        let max = obs.max;
        let fp = self.side().cache().verif_fingerprint();
        let side = self.side_mut();
        side.model.replace_all(ents);
        side.model.limit = max;
        side.desynced = desync;
        side.wc_track = None;
        let broken = obs.cur > obs.max;
        side.last_obs = obs;
        side.last_fp = fp;
        if broken && self.fails.is_empty() {
            // A panic outside the closure may leave the bound broken (C16 only
            // promises it for closure panics). Operations such as try_insert
            // compute max_size - current_size, so further use starts by
            // re-establishing the bound the way a user would.
            self.stats.ev("inject.bound-broken");
            self.step(&crate::ops::Op::SetMaxSize(crate::ops::LimSel::Abs(max.min(u32::MAX as usize) as u32)));
            self.step -= 1;
        }
    }

    /// Oracles that relate the state before an operation to the state after.
    pub fn after_op(&mut self, pre: &Pre, info: &Info, builds: u64, level: Level) {
        self.stats.steps += 1;
        self.collect_vios(info.name);
        let obs = match self.observe(level) {
            Some(o) => o,
            None => {
                // an operation that wrecks the structure also breaks its own contract
                let own: Option<&'static str> = match info.name {
                    "mutate" => Some("C11"),
                    "retain" => Some("C15"),
                    "clone" => Some("C14"),
                    "iterwalk" | "drain" => Some("C12"),
                    "reserve" | "try_reserve" | "shrink_to" | "shrink_to_fit" => Some("C13"),
                    _ => None,
                };
                if let Some(tag) = own {
                    let step = self.step;
                    for f in self.fails.iter_mut().filter(|f| f.step == step) {
                        if !f.has(tag) { f.tags.push(tag); }
                    }
                }
                // the list cannot be traversed; the table still answers lookups
                if let (true, Some(sub), false) = (info.evicting, info.subject, info.subject_rejected) {
                    let q = TKey::new(sub, 0);
                    let there = self.side().cache().contains(&q);
                    drop(q);
                    let tags: Vec<&'static str> = if info.name == "mutate" { vec!["C03", "C11"] } else { vec!["C03"] };
                    if !there {
                        self.fail(tags, format!("subject-evicted:{}", info.name),
                            format!("{} evicted the very entry {} it inserted/mutated", info.name, sub));
                    }
                }
                return;
            },
        };
        let fp = self.side().cache().verif_fingerprint();
        let tid = self.side().cache().verif_table_identity();
        let rebuilt = tid != pre.tid;
        let hk = self.hkind();

        let pre_keys = pre.obs.keys();
        let post_keys = obs.keys();
        let post_set: BTreeSet<u16> = post_keys.iter().copied().collect();
        let pre_set: BTreeSet<u16> = pre_keys.iter().copied().collect();
        let departed: Vec<u16> = pre_keys.iter().copied().filter(|k| !post_set.contains(k)).collect();

        // ---- nothing may change
        if !info.unchanged.is_empty() {
            if obs != pre.obs || fp != pre.fp {
                let what = if obs != pre.obs { "observable state" } else { "internal link structure" };
                self.fail(info.unchanged.clone(), format!("changed:{}", info.name),
                    format!("{} changed the {}: before {:?} after {:?}", info.name, what,
                        summary(&pre.obs), summary(&obs)));
            }
        }

        // ---- capacity operations are transparent
        if info.transparent && !obs.same_content(&pre.obs) {
            self.fail(vec!["C13"], format!("opaque:{}", info.name),
                format!("{} changed contents/order/sizes: before {:?} after {:?}", info.name,
                    summary(&pre.obs), summary(&obs)));
        }
        if info.is_insert && rebuilt {
            // growth must not disturb the other entries
            let others_pre: Vec<_> = pre.obs.items.iter().zip(&pre.obs.sizes)
                .filter(|(i, _)| post_set.contains(&i.k) && Some(i.k) != info.subject)
                .map(|(i, s)| (i.k, i.key_id, i.val_id, i.vheap, i.tag, *s)).collect();
            let others_post: Vec<_> = obs.items.iter().zip(&obs.sizes)
                .filter(|(i, _)| pre_set.contains(&i.k) && Some(i.k) != info.subject)
                .map(|(i, s)| (i.k, i.key_id, i.val_id, i.vheap, i.tag, *s)).collect();
            ck!(self, others_pre == others_post, ["C13"], "growth-opaque",
                "automatic growth during {} changed other entries: before {:?} after {:?}",
                info.name, brief(&others_pre), brief(&others_post));
        }

        // ---- C03: who left, and why
        {
            let unasked: Vec<u16> = departed.iter().copied()
                .filter(|k| !info.asked.contains(k)).collect();
            if !info.evicting {
                ck!(self, unasked.is_empty(), ["C03"], format!("vanished:{}", info.name),
                    "{} made entries {:?} vanish without being asked to", info.name, unasked);
            }
            else {
                // prefix of the pre-order with the subject deleted
                let cand: Vec<u16> = pre_keys.iter().copied()
                    .filter(|k| Some(*k) != info.subject && !info.asked.contains(k)).collect();
                let is_prefix = unasked.len() <= cand.len() && cand[..unasked.len()] == unasked[..];
                ck!(self, is_prefix, ["C03"], format!("not-lru-prefix:{}", info.name),
                    "{} evicted {:?}, which is not a least-recently-used prefix of {:?}",
                    info.name, unasked, brief(&cand));
                if let Some(sub) = info.subject {
                    if !info.subject_rejected {
                        if !post_set.contains(&sub) {
                            let tags: Vec<&'static str> = if info.name == "mutate" { vec!["C03", "C11"] } else { vec!["C03"] };
                            self.fail(tags, format!("subject-evicted:{}", info.name),
                                format!("{} evicted the very entry {} it inserted/mutated", info.name, sub));
                        }
                    }
                }
                if let Some(&last) = unasked.last() {
                    // minimal: keeping the last evicted entry would not have fitted
                    let last_size = pre.obs.items.iter().zip(&pre.obs.sizes)
                        .find(|(i, _)| i.k == last).map(|(_, s)| *s).unwrap_or(0);
                    ck!(self, (obs.cur as u128) + (last_size as u128) > obs.max as u128,
                        ["C03"], format!("not-minimal:{}", info.name),
                        "{} evicted {:?} although keeping {} (size {}) would have fitted: current {} max {}",
                        info.name, unasked, last, last_size, obs.cur, obs.max);
                    // the same judged by the true sizes of what is held (they equal the
                    // recorded ones unless the bookkeeping has gone wrong; entries whose
                    // recorded size may legitimately differ - after an unwound callback, in
                    // a clone of values with spare capacity - switch this off)
                    let exact = self.side().desynced.is_empty() && self.side().shrunk.is_empty() && !self.lenient_sizes;
                    if exact {
                        let e0 = self.e0;
                        let true_cur: u128 = obs.items.iter().map(|i| (e0 + i.kheap + i.vheap) as u128).sum();
                        let last_true = pre.obs.items.iter().find(|i| i.k == last).map(|i| e0 + i.kheap + i.vheap).unwrap_or(0);
                        ck!(self, true_cur + (last_true as u128) > obs.max as u128,
                            ["C03"], format!("not-minimal-true:{}", info.name),
                            "{} evicted {:?} although keeping {} (entry_size {}) would have fitted: the entries held afterwards measure {} in total, max_size {}",
                            info.name, unasked, last, last_true, true_cur, obs.max);
                    }
                    if self.want("C03") {
                        let sub_was_lru = info.subject.is_some() && pre_keys.first().copied() == info.subject;
                        let replaced = info.is_insert && info.subject.map(|s| pre_set.contains(&s)).unwrap_or(false);
                        self.nontrivial("C03", format!("{}|{}|n{}|{}{}", info.name, hk.class(),
                            unasked.len().min(4),
                            if sub_was_lru { "subject-lru" } else { "" },
                            if replaced { "replace" } else { "" }));
                    }
                }
                if let Some(inc) = info.incoming {
                    // exact fit evicts nothing
                    let credit = if info.is_insert || info.name == "mutate" {
                        info.subject.and_then(|s| pre.obs.items.iter().zip(&pre.obs.sizes)
                            .find(|(i, _)| i.k == s).map(|(_, sz)| *sz)).unwrap_or(0)
                    } else { 0 };
                    let free = pre.obs.max - pre.obs.cur.min(pre.obs.max) + credit;
                    if inc <= free {
                        ck!(self, unasked.is_empty(), ["C03", "C10"], format!("fit-evicted:{}", info.name),
                            "{} of an entry of size {} into free space {} evicted {:?}",
                            info.name, inc, free, unasked);
                    }
                    let exact = self.side().desynced.is_empty() && self.side().shrunk.is_empty() && !self.lenient_sizes;
                    if exact && !unasked.is_empty() {
                        let e0 = self.e0;
                        let others: u128 = pre.obs.items.iter().filter(|i| Some(i.k) != info.subject || !(info.is_insert || info.name == "mutate"))
                            .map(|i| (e0 + i.kheap + i.vheap) as u128).sum();
                        ck!(self, others + inc as u128 > pre.obs.max as u128, ["C03"], format!("fit-evicted-true:{}", info.name),
                            "{} of an entry of size {} evicted {:?} although everything would have fitted: the other entries measure {}, max_size {}",
                            info.name, inc, unasked, others, pre.obs.max);
                    }
                }
            }
        }

        // ---- C05: relative order of everything else is unchanged
        {
            let keep = |k: &u16| Some(*k) != info.subject && post_set.contains(k) && pre_set.contains(k);
            let a: Vec<u16> = pre_keys.iter().copied().filter(|k| keep(k)).collect();
            let b: Vec<u16> = post_keys.iter().copied().filter(|k| keep(k)).collect();
            ck!(self, a == b, ["C05"], format!("reordered:{}", info.name),
                "{} changed the relative order of other entries: before {:?} after {:?}",
                info.name, brief(&a), brief(&b));
            if let Some(sub) = info.subject {
                if post_set.contains(&sub) {
                    if info.promoting {
                        ck!(self, post_keys.last() == Some(&sub), ["C05"], format!("not-promoted:{}", info.name),
                            "{} did not make entry {} most-recently-used: order {:?}",
                            info.name, sub, brief(&post_keys));
                        if self.want("C05") && pre_keys.len() >= 3 && pre_keys.last() != Some(&sub)
                            && pre_set.contains(&sub) {
                            let posn = pre_keys.iter().position(|k| *k == sub).unwrap_or(0);
                            let pc = if posn == 0 { "lru" } else { "middle" };
                            self.nontrivial("C05", format!("{}|{}|{}", info.name, pc, hk.class()));
                        }
                    }
                    else if pre_set.contains(&sub) {
                        let pa = pre_keys.iter().position(|k| *k == sub);
                        let a2: Vec<u16> = pre_keys.iter().copied().filter(|k| post_set.contains(k)).collect();
                        let b2: Vec<u16> = post_keys.iter().copied().filter(|k| pre_set.contains(k)).collect();
                        ck!(self, a2 == b2, ["C05", "C19"], format!("moved:{}", info.name),
                            "{} moved entry {} (was at {:?}): before {:?} after {:?}",
                            info.name, sub, pa, brief(&a2), brief(&b2));
                    }
                }
            }
            if rebuilt && self.want("C05") && post_keys.len() >= 3 {
                self.nontrivial("C05", format!("rebuild|{}|{}", info.name, hk.class()));
            }
        }

        // ---- C20: hashing work
        {
            let held = pre.obs.len.max(obs.len) as u64;
            let bound = 2 + departed.len() as u64 + if rebuilt { held } else { 0 };
            ck!(self, builds <= bound, ["C20"], format!("hashes:{}", info.name),
                "{} computed {} key hashes; bound is 2 + {} departed{} = {} (len {} -> {})",
                info.name, builds, departed.len(), if rebuilt { " + held entries (table rebuilt)" } else { "" },
                bound, pre.obs.len, obs.len);
            if info.zero_hash {
                ck!(self, builds == 0, ["C20"], format!("hashes-nonzero:{}", info.name),
                    "{} computed {} key hashes but must hash nothing", info.name, builds);
            }
            if rebuilt {
                ck!(self, info.may_rebuild, ["C20", "C13"], format!("rebuilt:{}", info.name),
                    "{} rebuilt the table although it is not a rebuilding operation", info.name);
            }
            if self.want("C20") && pre.obs.len >= 8 {
                self.nontrivial("C20", format!("{}|{}|{}|{}", info.name,
                    if departed.is_empty() { "noevict" } else { "evict" },
                    if rebuilt { "rebuild" } else { "norebuild" },
                    if pre.obs.len >= 64 { "big" } else { "mid" }));
            }
        }

        // ---- C13: growth and bounds
        {
            let len = obs.len;
            if info.is_insert && rebuilt {
                let want = self.fresh((2 * len.saturating_sub(1)).max(1));
                ck!(self, obs.cap == want, ["C13"], "growth-size",
                    "insertion grew the table to capacity {} with {} entries; the smallest table holding twice the {} previous entries has capacity {}",
                    obs.cap, len, len.saturating_sub(1), want);
                self.stats.ev("rebuild.growth");
            }
            let peak = self.side().peak_len.max(len);
            let requested = self.side().requested_cap;
            let doubled = self.fresh(2 * peak);
            let allowed = doubled.max(requested).max(3);
            ck!(self, obs.cap <= allowed, ["C13"], "cap-bound",
                "capacity {} exceeds what growth by doubling ({} for peak len {}) or explicit requests ({}) explain",
                obs.cap, doubled, peak, requested);
            let s = self.side_mut();
            s.peak_len = peak;
            if let Some((n, cap0, fresh_inserts)) = s.wc_track {
                if fresh_inserts <= n {
                    let ok = obs.cap == cap0;
                    if !ok {
                        self.fail(vec!["C13"], "with-capacity".into(),
                            format!("cache created with_capacity({}) changed capacity {} -> {} after {} fresh insertions",
                                n, cap0, obs.cap, fresh_inserts));
                    }
                }
            }
        }

        // ---- other sides are unaffected (C14)
        for i in 0..self.sides.len() {
            if i == self.active {
                continue;
            }
            let fp_other = self.sides[i].cache().verif_fingerprint();
            if fp_other != self.sides[i].last_fp {
                self.fail(vec!["C14"], format!("crosstalk:{}", info.name),
                    format!("{} on side {} changed the independent cache on side {}", info.name, self.active, i));
            }
        }

        let side = self.side_mut();
        side.last_obs = obs;
        side.last_fp = fp;
        if !side.shrunk.is_empty() || !side.desynced.is_empty() {
            let model = &side.model;
            let keep: Vec<u16> = side.shrunk.iter().copied().filter(|k| model.contains(*k)).collect();
            let keep2: Vec<u16> = side.desynced.iter().copied().filter(|k| model.contains(*k)).collect();
            side.shrunk = keep.into_iter().collect();
            side.desynced = keep2.into_iter().collect();
        }
    }
}

pub fn summary(o: &Obs) -> String {
    let v: Vec<(u16, u64, u64, usize)> = o.items.iter().zip(o.sizes.iter().chain(std::iter::repeat(&0)))
        .map(|(i, s)| (i.k, i.key_id, i.val_id, *s)).collect();
    format!("len={} cur={} max={} cap={} entries(k,key_id,val_id,size)={}", o.len, o.cur, o.max, o.cap, brief(&v))
}

pub fn mk_key(k: u16, heap: usize) -> TKey {
    TKey::new(k, heap)
}

/// A value measuring `heap` bytes; every fourth one keeps a third of that as
/// spare capacity (which a clone of the value does not have).
pub fn mk_val(tag: u32, heap: usize) -> TVal {
    let mut v = TVal::new(tag, heap);
    if tag % 4 == 1 && heap >= 3 {
        v.spare = heap / 3;
        v.heap = heap - v.spare;
    }
    v
}

pub fn give_to_cache(k: &TKey, v: &TVal) {
    tracked::set_owner(k.id, Owner::Cache);
    tracked::set_owner(v.id, Owner::Cache);
}
