//! Capacity operations, iterator walks and clones.

use std::collections::BTreeSet;

use crate::ck;
use crate::interp::*;
use crate::model::Ent;
use crate::ops::*;
use crate::steps::*;
use crate::tracked::{self, Owner, St, TKey, TVal};

/// What one iterator call produced, reduced to identities.
#[derive(Debug, Clone, Copy, PartialEq, Eq)]
pub enum Got {
    None,
    Pair(u64, u64),
    Key(u64),
    Val(u64),
    Hint(usize, Option<usize>),
    Count(usize),
    Panicked,
}

impl World {
    // ---------------------------------------------------------- capacity

    pub fn do_capacity(&mut self, name: &'static str, arg: Option<&CapArg>, fail_alloc: bool) {
        let pre = self.pre();
        let inj = self.pending_inject;
        let len = self.side().model.len();
        let cap_before = self.side().cache().capacity();
        let mut a = arg.map(|a| self.resolve_cap(a)).unwrap_or(0);
        let huge = arg.map(|a| a.huge()).unwrap_or(false);
        if !(name == "try_reserve" && huge) {
            a = a.min(MAX_CAP_ARG);
        }
        let cls = arg.map(|a| a.class()).unwrap_or("fit");
        self.log(format!("{} {} (len {} capacity {}){}", name, a, len, cap_before, if fail_alloc { " with allocator refusal" } else { "" }));
        let e0 = self.e0;
        let need = len.checked_add(a);
        let realloc_expected = match name {
            "reserve" | "try_reserve" => need.map(|n| cap_before < n).unwrap_or(true),
            _ => cap_before > len.max(a),
        };
        // (never together with an injected panic: the refusal would hit the
        // allocation of the panic message, not one made by try_reserve)
        let arm = name == "try_reserve" && fail_alloc && self.alloc_installed && !huge && realloc_expected && inj.is_none();
        let threshold = need.unwrap_or(usize::MAX).saturating_mul(e0).max(1);
        // refusal either of the table itself (first request of at least its
        // size) or of the n-th allocation request of the call, n = 1..3
        let nth_mode = (self.step % 4) as u64;
        let mut fired = false;
        let fired_ref = &mut fired;
        let run = self.run(&[], |c| -> Result<(), String> {
            match name {
                "reserve" => { c.reserve(a); Ok(()) },
                "try_reserve" => {
                    if arm {
                        if nth_mode == 0 { crate::alloc::fail_next_ge(threshold); } else { crate::alloc::fail_nth(nth_mode); }
                    }
                    let r = c.try_reserve(a);
                    *fired_ref = arm && !crate::alloc::disarm();
                    r.map_err(|e| format!("{:?}", e))
                },
                "shrink_to" => { c.shrink_to(a); Ok(()) },
                "shrink_to_fit" => { c.shrink_to_fit(); Ok(()) },
                _ => unreachable!(),
            }
        });
        crate::alloc::disarm();
        if let Some(msg) = &run.panic {
            if run.injected {
                let (cb, nth, _) = inj.unwrap();
                self.after_injected_panic(&pre, name, cb, nth, &BTreeSet::new(), false);
            }
            else {
                self.unexpected_panic(name, msg);
            }
            return;
        }
        let ret = run.ret.unwrap();
        let cap_after = self.side().cache().capacity();
        let tid_after = self.side().cache().verif_table_identity();
        let rebuilt = tid_after != pre.tid;
        self.side_mut().wc_track = None;
        let mut info = Info { name, transparent: true, may_rebuild: true, ..Info::default() };
        let hk = self.hkind().class();
        match name {
            "reserve" | "try_reserve" => {
                let must_fail = match need {
                    None => true,
                    Some(n) => n > (isize::MAX as usize) / e0,
                };
                match &ret {
                    Ok(()) => {
                        ck!(self, !must_fail, ["C13"], "reserve-overflow-ok",
                            "{}({}) with len {} succeeded although the request overflows", name, a, len);
                        ck!(self, !fired, ["C13"], "refusal-swallowed",
                            "try_reserve({}) returned Ok although the allocator refused an allocation it made", a);
                        if let Some(n) = need {
                            ck!(self, cap_after >= n, ["C13"], "reserve-short",
                                "{}({}) left capacity {} < len {} + additional", name, a, cap_after, len);
                            if !must_fail {
                                let f = self.fresh(n);
                                let s = self.side_mut();
                                s.requested_cap = s.requested_cap.max(f);
                            }
                        }
                    },
                    Err(e) => {
                        ck!(self, must_fail || fired, ["C13"], "reserve-spurious-err",
                            "try_reserve({}) with len {} failed with {} for no reason", a, len, e);
                        info.unchanged = vec!["C13"];
                        self.stats.ev(if fired { "try_reserve.refused" } else { "try_reserve.overflow" });
                        if len > 0 {
                            self.nontrivial("C13", format!("try_reserve-fail|{}{}|{}|{}", if fired { "refused" } else { "overflow" }, if fired { nth_mode } else { 0 }, cls, hk));
                        }
                    },
                }
            },
            _ => {
                ck!(self, cap_after <= cap_before, ["C13"], format!("shrink-raised:{}", if rebuilt { "rebuilt" } else { "inplace" }),
                    "{}({}) raised capacity() from {} to {} (len {})", name, a, cap_before, cap_after, len);
                let floor = len.max(a);
                if cap_before >= floor {
                    ck!(self, cap_after >= floor, ["C13"], "shrink-below",
                        "{}({}) left capacity {} below max(len {}, min_capacity)", name, a, cap_after, len);
                }
            },
        }
        if rebuilt && len > 0 {
            self.nontrivial("C13", format!("{}|{}|{}", name, cls, hk));
            self.stats.ev("rebuild.capacity-op");
            if len >= 8 && (name == "shrink_to" || name == "shrink_to_fit") {
                self.stats.ev("rebuild.shrink8");
                self.nontrivial("C07", format!("shrink-rebuild|{}|{}", hk, if len >= 64 { "big" } else { "mid" }));
            }
            else if len >= 8 {
                self.nontrivial("C07", format!("grow-rebuild|{}|{}", hk, if len >= 64 { "big" } else { "mid" }));
            }
            if self.hkind().colliding() {
                self.nontrivial("C04", format!("rebuild|{}|{}", name, self.hkind().to_text()));
            }
            self.nontrivial("C06", format!("rebuild|{}", name));
        }
        self.after_op(&pre, &info, run.builds, Level::Full);
    }

    // ------------------------------------------------------------- walks

    pub fn do_iterwalk(&mut self, kind: IterKind, calls: &[Call], rest: Rest, fate: Fate) {
        let pre = self.pre();
        // the only user code an iterator runs are destructors (of what it skips or drops)
        let inj = self.pending_inject.filter(|i| i.0.is_drop() && !kind.borrowing());
        self.pending_inject = inj;
        let order: Vec<Ent> = self.side().model.order.clone();
        let len = order.len();
        let plan = plan_walk(calls, rest, len);
        // a finishing consumer takes the iterator by value: nothing is left to forget
        // the closure of a finishing consumer may unwind at its (k+1)-th item
        let unwind_at: Option<usize> = match fate { Fate::Unwind(k) if plan.fin.finishing() && plan.fin != Rest::Count => Some(k as usize), _ => None };
        let fate = if plan.fin.finishing() || matches!(fate, Fate::Unwind(_)) { Fate::Drop } else { fate };
        // with a destructor panic armed, a panic coming out of one call is caught
        // there and the iterator stays in use
        let catch_each = inj.is_some();
        let unwound = std::cell::Cell::new(false);
        let panicked_calls = std::cell::Cell::new(0u32);
        let plan_txt = format!("{}{}", calls_text(&plan.calls), if plan.fin.finishing() { format!("+{}", plan.fin.to_text()) } else { String::new() });
        self.log(format!("iterwalk {} calls={} fate={:?} over len {}", kind.name(), plan_txt, fate, len));

        // expected results
        let exp = expect_walk(&plan, len);
        let mut yielded: BTreeSet<usize> = exp.yielded.clone();
        let exhausted_at = exp.exhausted_at;

        let mut got: Vec<Got> = Vec::with_capacity(plan.calls.len());
        let mut fin_got: Vec<Got> = Vec::new();
        let mut taken_k: Vec<TKey> = Vec::new();
        let mut taken_v: Vec<TVal> = Vec::new();
        let forget = fate == Fate::Forget;
        if forget {
            self.forget_seen = true;
        }
        let a = self.active;
        let run;
        {
            let got_ref = &mut got;
            let fin_ref = &mut fin_got;
            let tk = &mut taken_k;
            let tv = &mut taken_v;
            let plan_ref = &plan;
            let unwound_ref = &unwound;
            let panicked_ref = &panicked_calls;
            macro_rules! sink {
                ($conv:expr) => {
                    |o| match o {
                        WalkOut::Item(None) => got_ref.push(Got::None),
                        WalkOut::Item(Some(x)) => { let g = $conv(x); got_ref.push(g); },
                        WalkOut::Hint(lo, hi) => got_ref.push(Got::Hint(lo, hi)),
                        WalkOut::Fin(x) => {
                            let g = $conv(x);
                            fin_ref.push(g);
                            if unwind_at == Some(fin_ref.len() - 1) {
                                unwound_ref.set(true);
                                panic!("{}", tracked::INJECTED);
                            }
                        },
                        WalkOut::Count(n) => fin_ref.push(Got::Count(n)),
                        WalkOut::Panicked => { panicked_ref.set(panicked_ref.get() + 1); got_ref.push(Got::Panicked); },
                    }
                };
            }
            if kind.consuming() {
                // the cache is consumed; a fresh one takes its place afterwards
                let cache = self.sides[a].cache.take().unwrap();
                let limit = self.sides[a].model.limit;
                let fresh_side = self.new_side(limit, None);
                let old = std::mem::replace(&mut self.sides[a], fresh_side);
                drop(old.cache);
                run = self.run(&[], move |_unused| {
                    match kind {
                        IterKind::IntoIter => drive_walk_opts(cache.into_iter(), plan_ref, forget, catch_each,
                            sink!(|(k, v): (TKey, TVal)| { let g = Got::Pair(k.id, v.id); tk.push(k); tv.push(v); g })),
                        IterKind::IntoKeys => drive_walk_opts(cache.into_keys(), plan_ref, forget, catch_each,
                            sink!(|k: TKey| { let g = Got::Key(k.id); tk.push(k); g })),
                        _ => drive_walk_opts(cache.into_values(), plan_ref, forget, catch_each,
                            sink!(|v: TVal| { let g = Got::Val(v.id); tv.push(v); g })),
                    }
                });
            }
            else {
                run = self.run(&[], move |c| {
                    match kind {
                        IterKind::Iter => drive_walk(c.iter(), plan_ref, forget,
                            sink!(|(k, v): (&TKey, &TVal)| Got::Pair(k.id, v.id))),
                        IterKind::Keys => drive_walk(c.keys(), plan_ref, forget, sink!(|k: &TKey| Got::Key(k.id))),
                        IterKind::Values => drive_walk(c.values(), plan_ref, forget, sink!(|v: &TVal| Got::Val(v.id))),
                        _ => drive_walk_opts(c.drain(), plan_ref, forget, catch_each,
                            sink!(|(k, v): (TKey, TVal)| { let g = Got::Pair(k.id, v.id); tk.push(k); tv.push(v); g })),
                    }
                });
            }
        }
        let unwound = unwound.get();
        let panicked_calls = panicked_calls.get();
        if run.panic.is_some() && unwound && !run.injected {
            // the harness' own closure unwound out of a finishing consumer: the
            // iterator went away with the unwinding, exactly as if it had been
            // dropped there. What the closure received belongs to the harness.
            self.stats.ev("walk.unwound-in-consumer");
        }
        else if run.panic.is_some() || panicked_calls > 0 {
            let msg = run.panic.clone().unwrap_or_default();
            let msg = &msg;
            if run.injected || panicked_calls > 0 {
                // a destructor panicked inside nth / a skipping adaptor / the
                // iterator's own destructor; the unwinding has dropped the iterator.
                // What was handed out before belongs to the harness.
                let (cb, nth, _) = inj.unwrap();
                let ctx = kind.name();
                for k in taken_k { self.take_key(k, ctx); }
                for v in taken_v { self.take_val(v, ctx); }
                for e in &order {
                    tracked::set_leak_ok(e.key_id);
                    tracked::set_leak_ok(e.val_id);
                }
                if kind == IterKind::Drain {
                    // "once a drain is dropped the cache is empty ... and fully usable"
                    let all: BTreeSet<u16> = order.iter().map(|e| e.k).collect();
                    let nf = self.fails.len();
                    self.after_injected_panic(&pre, "drain", cb, nth, &all, false);
                    if self.fails.len() == nf {
                        let (l, c) = { let o = &self.side().last_obs; (o.len, o.cur) };
                        ck!(self, l == 0 && c == 0, ["C12", "C02"], "drain-not-empty@drop-panic",
                            "after a drain went away through a panicking destructor len/current_size are {}/{}", l, c);
                    }
                }
                else {
                    self.leaks_allowed = true;
                    self.drop_panic_seen = true;
                    self.stats.ev("inject.fired-in-destructor");
                    let nf = self.fails.len();
                    self.collect_vios(ctx);
                    for f in self.fails.iter_mut().skip(nf) { f.sig = format!("{}@drop-panic", f.sig); }
                    self.stats.steps += 1;
                }
                return;
            }
            self.unexpected_panic("iterwalk", msg);
            for k in taken_k { tracked::set_leak_ok(k.id); std::mem::forget(k); }
            for v in taken_v { tracked::set_leak_ok(v.id); std::mem::forget(v); }
            return;
        }

        if unwound {
            // only what the closure received before it unwound was handed out
            let k = unwind_at.unwrap_or(0);
            yielded = exp.per_call.iter().flatten().copied().collect();
            yielded.extend(exp.fin_items.iter().take(k + 1).copied());
        }

        // ---- C12: the sequence of results
        let mut tags12: Vec<&'static str> = if forget { vec!["C12", "C17"] } else { vec!["C12"] };
        if kind.borrowing() {
            // "the order reported by iteration": a borrowing iterator that answers
            // with the wrong entry misreports the recency order
            tags12.push("C05");
        }
        let want_of = |p: usize| match kind {
            IterKind::Iter | IterKind::Drain | IterKind::IntoIter => Got::Pair(order[p].key_id, order[p].val_id),
            IterKind::Keys | IterKind::IntoKeys => Got::Key(order[p].key_id),
            _ => Got::Val(order[p].val_id),
        };
        let mut results_ok = true;
        for (n, (&e, &g)) in exp.per_call.iter().zip(got.iter()).enumerate() {
            let after_exhaustion = exhausted_at.map(|x| n > x).unwrap_or(false);
            if after_exhaustion && !kind.fused() {
                // calls after the first None on a non-fused iterator only
                // have to be memory-safe
                continue;
            }
            if let Got::Hint(lo, hi) = g {
                let (f, b) = exp.before[n];
                let rem = len - f - b;
                if lo > rem || hi.map(|h| h < rem).unwrap_or(false) {
                    // outside the listed property (the statement is about what
                    // next / next_back yield): counted, not judged
                    self.stats.ev("walk.size_hint-does-not-bracket");
                }
                continue;
            }
            let want = e.map(want_of).unwrap_or(Got::None);
            if g != want {
                results_ok = false;
                self.fail(tags12.clone(), format!("walk:{}", kind.name()),
                    format!("{} call #{} ({}) returned {:?}, expected {:?} (len {}, calls {})", kind.name(), n + 1,
                        plan.calls[n].letter(), g, want, len, plan_txt));
                break;
            }
        }
        if got.len() != exp.per_call.len() && results_ok {
            results_ok = false;
            self.fail(tags12.clone(), format!("walk:{}", kind.name()),
                format!("{} answered {} of {} calls", kind.name(), got.len(), exp.per_call.len()));
        }
        if plan.fin.finishing() && results_ok && (exhausted_at.is_none() || kind.fused()) {
            let mut want: Vec<Got> = match exp.fin_count {
                Some(n) => vec![Got::Count(n)],
                None => exp.fin_items.iter().map(|&p| want_of(p)).collect(),
            };
            if unwound {
                want.truncate(unwind_at.unwrap_or(0) + 1);
            }
            if fin_got != want {
                self.fail(tags12.clone(), format!("walk-fin:{}:{}", kind.name(), plan.fin.to_text().trim_end_matches(char::is_numeric)),
                    format!("{} after calls {}: {} handed out {:?}, expected {:?} (len {})", kind.name(),
                        calls_text(&plan.calls), plan.fin.to_text(), fin_got, want, len));
            }
        }
        if self.want("C12") && len >= 2 {
            let mixes = plan.calls.iter().any(|c| c.back()) && plan.calls.iter().any(|c| !c.back());
            let past = exhausted_at.map(|x| x + 1 < plan.calls.len()).unwrap_or(false);
            if mixes && past && fate == Fate::Drop {
                self.nontrivial("C12", format!("{}|{}|{}", kind.name(), len.min(8),
                    plan.calls.iter().take(12).map(|c| c.letter()).collect::<String>()));
            }
            if plan.calls.iter().any(|c| c.positional()) || plan.fin.finishing() {
                self.nontrivial("C12", format!("{}|{}|{}|{}", kind.name(), len.min(8),
                    plan.calls.iter().take(6).map(|c| c.letter()).collect::<String>(), plan.fin.to_text()));
            }
        }
        if self.want("C17") && forget && len >= 2 && !yielded.is_empty() {
            self.nontrivial("C17", format!("{}|{}|{}", kind.name(), len.min(8), yielded.len().min(8)));
        }
        if self.want("C06") && kind != IterKind::Iter && !kind.borrowing() && fate == Fate::Drop && yielded.len() < len {
            let cls = if yielded.is_empty() { "none" } else if plan.calls.iter().all(|c| c.back()) { "back" } else if plan.calls.iter().all(|c| !c.back()) { "front" } else { "mixed" };
            self.nontrivial("C06", format!("partial|{}|{}", kind.name(), cls));
        }

        // ---- ownership of what was yielded
        let ctx = kind.name();
        for k in taken_k { self.take_key(k, ctx); }
        for v in taken_v { self.take_val(v, ctx); }
        self.collect_vios(ctx);

        // ---- aftermath
        if kind.borrowing() {
            let info = Info { name: "iterwalk", unchanged: vec!["C19", "C12"], zero_hash: true, ..Info::default() };
            if len >= 2 {
                self.nontrivial("C19", format!("walk|{}|{}", kind.name(), if plan.calls.iter().any(|c| c.back()) { "back" } else { "front" }));
            }
            self.after_op(&pre, &info, run.builds, Level::Full);
            return;
        }

        // owning kinds: what was not yielded is dropped with the iterator,
        // or leaked when it is forgotten
        let unyielded: Vec<Ent> = order.iter().enumerate()
            .filter(|(p, _)| !yielded.contains(p)).map(|(_, e)| e.clone()).collect();
        // the half of a yielded entry that into_keys / into_values discards
        for &p in &yielded {
            let e = &order[p];
            let discarded = match kind { IterKind::IntoKeys => Some(e.val_id), IterKind::IntoValues => Some(e.key_id), _ => None };
            if let Some(id) = discarded {
                let st = tracked::obj(id).map(|o| o.st);
                ck!(self, st == Some(St::Dropped), ["C06", "C12"], "discarded-half",
                    "{} did not drop the other half (id {}) of yielded entry {}", kind.name(), id, e.k);
            }
        }
        ck!(self, run.builds == 0, ["C20"], "hashes-nonzero:iterwalk",
            "{} computed {} key hashes but must hash nothing", kind.name(), run.builds);

        if kind == IterKind::Drain {
            if forget {
                self.leaks_allowed = true;
                // the cache must still be a valid cache that lists nothing the
                // harness already owns; resynchronise from what it shows
                self.stats.ev("forget.drain");
                let nfails = self.fails.len();
                let obs = self.observe_side(self.active, Level::Full, false);
                // whatever is wrong with the cache right after its drain was
                // forgotten is C17's business ("remains a valid, usable cache")
                for f in self.fails.iter_mut().skip(nfails) {
                    if !f.has("C17") { f.tags.push("C17"); }
                }
                let obs = match obs {
                    Some(o) => o,
                    None => return,
                };
                let e0 = self.e0;
                let mut desync = BTreeSet::new();
                let ents: Vec<Ent> = obs.items.iter().enumerate().map(|(i, it)| {
                    let size = obs.sizes[i];
                    if size != e0 + it.kheap + it.vheap { desync.insert(it.k); }
                    Ent { k: it.k, key_id: it.key_id, val_id: it.val_id, kheap: it.kheap, vheap: it.vheap, tag: it.tag, size }
                }).collect();
                let fp = self.side().cache().verif_fingerprint();
                let peak = obs.len;
                let cap = obs.cap;
                let f = self.fresh(cap);
                let s = self.side_mut();
                s.model.replace_all(ents);
                s.desynced = desync;
                s.wc_track = None;
                s.last_obs = obs;
                s.last_fp = fp;
                s.peak_len = s.peak_len.max(peak);
                s.requested_cap = s.requested_cap.max(f);
                for e in &unyielded {
                    if !self.side().model.contains(e.k) {
                        tracked::set_leak_ok(e.key_id);
                        tracked::set_leak_ok(e.val_id);
                    }
                }
            }
            else {
                self.side_mut().model.clear();
                self.side_mut().desynced.clear();
                self.side_mut().wc_track = None;
                self.expect_dropped(&unyielded, vec!["C06", "C12"], "not consumed from drain");
                let mut info = Info { name: "drain", zero_hash: true, ..Info::default() };
                for e in &order { info.asked.insert(e.k); }
                self.after_op(&pre, &info, run.builds, Level::Full);
                if self.fails.is_empty() {
                    let o = &self.side().last_obs;
                    let (l, c) = (o.len, o.cur);
                    ck!(self, l == 0 && c == 0, ["C12", "C02"], "drain-not-empty",
                        "after dropping the drain len/current_size are {}/{}", l, c);
                }
            }
        }
        else {
            // consuming kinds: the old cache is gone, a fresh one is in place
            if forget {
                self.leaks_allowed = true;
                self.stats.ev("forget.into");
                for e in &unyielded {
                    tracked::set_leak_ok(e.key_id);
                    tracked::set_leak_ok(e.val_id);
                }
            }
            else {
                self.expect_dropped(&unyielded, vec!["C06", "C12"], "not consumed from owning iterator");
            }
            self.stats.steps += 1;
        }
    }

    // ------------------------------------------------------------- clone

    pub fn do_clone(&mut self, mode: CloneMode) {
        let pre = self.pre();
        if mode == CloneMode::Unwinding {
            // a second panic while unwinding aborts the process: no injection here
            self.pending_inject = None;
        }
        let inj = self.pending_inject;
        let len = self.side().model.len();
        self.log(format!("clone {:?} (len {})", mode, len));
        // clone_from: an existing target with room for everything, holding
        // two entries of its own (which clone_from has to get rid of)
        let mut target: Option<Cache> = None;
        let mut target_ents: Vec<Ent> = Vec::new();
        if mode == CloneMode::From {
            let extra = (self.step % 5) * 3;
            let tlimit = match self.step % 3 { 0 => usize::MAX, 1 => self.e0 * 2 + 1, _ => 0 };
            let mut t: Cache = lru_mem::LruCache::with_capacity_and_hasher(tlimit, len + extra,
                crate::hashers::VHasher::new(self.cfg.hasher));
            for i in 0..2u16 {
                let k = mk_key(self.cfg.universe.wrapping_sub(1 + i), 0);
                let v = mk_val(0, i as usize);
                target_ents.push(Ent { k: k.k, key_id: k.id, val_id: v.id, kheap: 0, vheap: i as usize, tag: 0, size: 0 });
                give_to_cache(&k, &v);
                let _ = t.insert(k, v);
            }
            target = Some(t);
        }
        // the target stays outside the closure: after a panic inside clone_from
        // it is still the caller's cache and has to be a valid one
        let mut target_slot = target.take();
        let tref = &mut target_slot;
        let unwinding = mode == CloneMode::Unwinding;
        let run = self.run(&[], |c| -> Option<Cache> {
            match tref.as_mut() {
                Some(t) => { t.clone_from(c); None },
                None if unwinding => {
                    // a destructor that snapshots the cache, running because the
                    // code around it panicked
                    struct Snapshot<'a> { cache: &'a Cache, out: &'a mut Option<Cache> }
                    impl<'a> Drop for Snapshot<'a> {
                        fn drop(&mut self) { *self.out = Some(self.cache.clone()); }
                    }
                    let mut out = None;
                    let cref: &Cache = c;
                    let _ = std::panic::catch_unwind(std::panic::AssertUnwindSafe(|| {
                        let _s = Snapshot { cache: cref, out: &mut out };
                        panic!("{}", tracked::INJECTED);
                    }));
                    out
                },
                None => Some(c.clone()),
            }
        });
        let run = Run { ret: run.ret.map(|r| r.or_else(|| target_slot.take()).expect("a clone")),
            counts: run.counts, builds: run.builds, panic: run.panic, injected: run.injected };
        if run.panic.is_some() {
            if let Some(t) = target_slot.take() {
                // C16: usable and consistent after the unwind
                match t.verif_structure() {
                    Err(e) => self.fail(vec!["C16", "C14", "C07"], "clone_from-panic-structure".into(),
                        format!("after a panic inside clone_from the target's structure is broken: {}", e)),
                    Ok(st) => {
                        let sum: usize = st.sizes.iter().fold(0usize, |a, &x| a.saturating_add(x));
                        let (cur, len) = (t.current_size(), t.len());
                        ck!(self, sum == cur && len == st.sizes.len(), ["C16", "C14", "C02"], "clone_from-panic-accounting",
                            "after a panic inside clone_from the target reports current_size {} / len {} but holds {} entries whose recorded sizes sum to {}",
                            cur, len, st.sizes.len(), sum);
                    },
                }
                self.leaks_allowed = true;
                drop(t);
                self.collect_vios("dropping a clone_from target after a panic");
            }
        }
        if mode == CloneMode::From && run.panic.is_none() {
            self.collect_vios("clone_from");
            self.expect_dropped(&target_ents, vec!["C06", "C14"], "previous contents of a clone_from target");
        }
        if let Some(msg) = &run.panic {
            if run.injected {
                let (cb, nth, _) = inj.unwrap();
                self.after_injected_panic(&pre, "clone", cb, nth, &BTreeSet::new(), false);
                // the source must be exactly as it was
                if self.fails.is_empty() {
                    let same = self.side().last_obs == pre.obs && self.side().last_fp == pre.fp;
                    ck!(self, same, ["C16", "C19"], "clone-panic-source",
                        "a panic inside clone() changed the source cache");
                }
            }
            else {
                self.unexpected_panic("clone", msg);
            }
            return;
        }
        let clone = run.ret.unwrap();
        // the source is untouched
        let info = Info { name: "clone", unchanged: vec!["C19", "C14"], ..Info::default() };
        let src_cap = self.side().cache().capacity();
        let held = len as u64;
        ck!(self, run.builds <= held + 2, ["C20"], "hashes:clone",
            "clone of {} entries computed {} key hashes", len, run.builds);
        self.after_op(&pre, &info, 0, Level::Full);
        if !self.fails.is_empty() {
            tracked::with_reg(|_| ());
            self.leak_cache(clone);
            return;
        }
        // the clone as a side of its own
        let model = self.side().model.clone();
        let requested = self.fresh(src_cap);
        let mut side = Side {
            cache: Some(clone),
            model,
            peak_len: len,
            requested_cap: requested,
            wc_track: None,
            last_obs: Obs::default(),
            last_fp: Vec::new(),
            desynced: self.side().desynced.clone(),
            shrunk: self.side().shrunk.clone(),
        };
        side.last_fp = side.cache().verif_fingerprint();
        self.sides.push(side);
        let idx = self.sides.len() - 1;
        let nfails = self.fails.len();
        // recorded sizes are copied from the source; re-measuring is judged
        // below against the source, not here
        self.lenient_sizes = true;
        let cobs = self.observe_side(idx, Level::Full, false);
        self.lenient_sizes = false;
        // whatever is wrong with a fresh clone is (also) C14's business
        for f in self.fails.iter_mut().skip(nfails) {
            if !f.has("C14") {
                f.tags.push("C14");
            }
        }
        if let Some(cobs) = cobs {
            let src = self.sides[self.active].last_obs.clone();
            let src = &src;
            // same entries, order, payloads, recorded sizes, totals
            // (a cloned value may measure less than its original — spare capacity
            // is not cloned — but the recorded sizes and the total are the source's)
            let same = cobs.len == src.len && cobs.cur == src.cur && cobs.max == src.max
                && cobs.sizes == src.sizes
                && cobs.items.len() == src.items.len()
                && cobs.items.iter().zip(&src.items).all(|(a, b)|
                    (a.k, a.kheap, a.tag) == (b.k, b.kheap, b.tag) && a.vheap <= b.vheap);
            if !same {
                let (s1, s2) = (summary(src), summary(&cobs));
                self.fail(vec!["C14"], "clone-differs".into(),
                    format!("clone differs from its source: source {} clone {}", s1, s2));
            }
            let cap_ok = cobs.cap >= src.cap;
            let (cc, sc) = (cobs.cap, src.cap);
            ck!(self, cap_ok, ["C14"], "clone-capacity", "clone has capacity {} < source capacity {}", cc, sc);
            // own copies: fresh ids whose origin is the source's id
            let mut own_ok = true;
            let mut detail = String::new();
            if same {
                for (a, b) in cobs.items.iter().zip(&self.sides[self.active].last_obs.items) {
                    for (cid, sid) in [(a.key_id, b.key_id), (a.val_id, b.val_id)] {
                        let o = tracked::obj(cid);
                        if cid == sid || o.map(|o| o.origin) != Some(sid) {
                            own_ok = false;
                            detail = format!("clone lists id {} for source id {} (origin {:?})", cid, sid, o.map(|o| o.origin));
                        }
                    }
                }
            }
            ck!(self, own_ok, ["C14", "C06"], "clone-shares", "clone does not own its own copies: {}", detail);
            if same && own_ok {
                // adopt the clone's identities in its model
                let items = cobs.items.clone();
                let mut shrunk = Vec::new();
                let m = &mut self.sides[idx].model;
                for (e, it) in m.order.iter_mut().zip(&items) {
                    e.key_id = it.key_id;
                    e.val_id = it.val_id;
                    if it.vheap != e.vheap {
                        // measures less than what is recorded for it
                        e.vheap = it.vheap;
                        shrunk.push(e.k);
                    }
                }
                if !shrunk.is_empty() {
                    self.stats.ev("clone.shrunk-values");
                }
                self.sides[idx].shrunk.extend(shrunk);
            }
            if self.want("C14") && len >= 3 {
                let mixed = cobs.sizes.iter().collect::<BTreeSet<_>>().len() >= 2;
                if mixed {
                    self.nontrivial("C14", format!("clone|{}|{}|{:?}", self.hkind().class(), if len >= 16 { "long" } else { "short" }, mode));
                }
            }
            self.nontrivial("C19", "clone".to_string());
            self.sides[idx].last_obs = cobs;
        }
        if !self.fails.is_empty() {
            let s = self.sides.pop().unwrap();
            if let Some(c) = s.cache { self.leak_cache(c); }
            return;
        }
        match mode {
            CloneMode::Check | CloneMode::From => {
                let s = self.sides.pop().unwrap();
                let ents = s.model.order.clone();
                drop(s);
                self.collect_vios("dropping the clone");
                self.expect_dropped(&ents, vec!["C06", "C14"], "dropping the clone");
            },
            CloneMode::Swap | CloneMode::Unwinding => {
                let s = self.sides.pop().unwrap();
                let a = self.active;
                let old = std::mem::replace(&mut self.sides[a], s);
                let ents = old.model.order.clone();
                drop(old);
                self.collect_vios("dropping the source after clone");
                self.expect_dropped(&ents, vec!["C06", "C14"], "dropping the clone's source");
                // the surviving clone is unaffected by its source's death
                let fp = self.side().cache().verif_fingerprint();
                let same = fp == self.side().last_fp;
                ck!(self, same, ["C14"], "clone-tied", "dropping the source changed the clone");
            },
            CloneMode::Fork => {
                if self.sides.len() > 3 {
                    // keep at most three sides: retire the oldest inactive one
                    let victim = (0..self.sides.len() - 1).find(|i| *i != self.active).unwrap_or(0);
                    let old = self.sides.remove(victim);
                    if self.active > victim { self.active -= 1; }
                    let ents = old.model.order.clone();
                    drop(old);
                    self.collect_vios("dropping a retired fork");
                    self.expect_dropped(&ents, vec!["C06", "C14"], "dropping a retired fork");
                }
                self.stats.ev("clone.fork");
            },
        }
    }

    /// A cache that is in an unknown state after a failure is leaked rather
    /// than dropped (the verdict is already in).
    pub fn leak_cache(&mut self, c: Cache) {
        self.leaks_allowed = true;
        std::mem::forget(c);
    }
}

#[allow(dead_code)]
fn owner_of(id: u64) -> Option<Owner> {
    tracked::obj(id).map(|o| o.owner)
}
