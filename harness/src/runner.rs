//! Running cases, accumulating what a run covered, known findings.

use std::collections::{BTreeMap, BTreeSet};
use std::path::{Path, PathBuf};

use serde_json::{json, Value};

use crate::interp::{CaseStats, Failure, World};
use crate::ops::{Case, Op};

pub const PROPS: [&str; 20] = [
    "C01", "C02", "C03", "C04", "C05", "C06", "C07", "C08", "C09", "C10",
    "C11", "C12", "C13", "C14", "C15", "C16", "C17", "C18", "C19", "C20",
];

pub fn static_prop(p: &str) -> Option<&'static str> {
    PROPS.iter().copied().find(|q| *q == p)
}

pub struct CaseOutcome {
    pub stats: CaseStats,
    pub fails: Vec<Failure>,
    pub trace: Vec<String>,
}

pub fn run_case(case: &Case, target: Option<&'static str>, trace: bool) -> CaseOutcome {
    let mut w = World::new(&case.config, target);
    w.trace_on = trace;
    for op in &case.ops {
        w.step(op);
        if !w.fails.is_empty() && !w.resync_past_foreign() {
            break;
        }
    }
    w.pending_inject = None;
    w.finish();
    if let Some(t) = target {
        if !w.foreign_first.is_empty() {
            if w.fails.iter().any(|f| f.has(t)) {
                // reported with its history: it came after another property's failure
                let first = w.foreign_first[0].clone();
                for f in w.fails.iter_mut().filter(|f| f.has(t)) {
                    f.msg = format!("{} (the case had gone on from the observed state after step {}: [{}] {})", f.msg, first.step, first.sig, first.msg);
                }
            }
            else {
                w.fails = std::mem::take(&mut w.foreign_first);
            }
        }
    }
    CaseOutcome { stats: std::mem::take(&mut w.stats), fails: std::mem::take(&mut w.fails), trace: std::mem::take(&mut w.trace) }
}

// ------------------------------------------------------- known findings

#[derive(Clone, Debug)]
pub struct Known {
    pub property: String,
    pub signature: String,
    pub description: String,
}

pub fn load_known(root: &Path) -> Vec<Known> {
    let p = root.join("known_findings.json");
    let text = match std::fs::read_to_string(&p) {
        Ok(t) => t,
        Err(_) => return vec![],
    };
    let v: Value = match serde_json::from_str(&text) {
        Ok(v) => v,
        Err(e) => {
            eprintln!("warning: cannot parse {}: {}", p.display(), e);
            return vec![];
        }
    };
    v.get("findings").and_then(|f| f.as_array()).map(|a| {
        a.iter().filter_map(|e| Some(Known {
            property: e.get("property")?.as_str()?.to_string(),
            signature: e.get("signature")?.as_str()?.to_string(),
            description: e.get("description").and_then(|d| d.as_str()).unwrap_or("").to_string(),
        })).collect()
    }).unwrap_or_default()
}

pub fn is_known<'a>(known: &'a [Known], prop: &str, sig: &str) -> Option<&'a Known> {
    known.iter().find(|k| k.property == prop && k.signature == sig)
}

// ------------------------------------------------------------ accumulate

#[derive(Clone, Debug, Default)]
pub struct Violation {
    pub replay_text: String,
    pub msg: String,
    pub sig: String,
}

#[derive(Clone, Debug, Default)]
pub struct Accum {
    pub cases: u64,
    pub steps: u64,
    pub events: BTreeMap<String, u64>,
    pub nt: BTreeSet<String>,
    pub nt_cases: u64,
    pub samples: Vec<String>,
    pub foreign: BTreeMap<String, u64>,
    pub known: BTreeMap<String, u64>,
    pub skipped: u64,
    pub violations: Vec<Violation>,
    pub notes: Vec<String>,
    pub exhaustive: bool,
    pub crashed: u64,
}

impl Accum {
    pub fn add_case(&mut self, prop: &str, stats: &CaseStats, sample: impl FnOnce() -> String) {
        self.cases += 1;
        self.steps += stats.steps;
        self.skipped += stats.skipped;
        for (k, v) in &stats.events {
            *self.events.entry((*k).to_string()).or_insert(0) += v;
        }
        let mut new = false;
        let mut nontrivial = false;
        if let Some(set) = stats.nt.get(prop) {
            if !set.is_empty() {
                nontrivial = true;
                self.nt_cases += 1;
                new = set.iter().any(|s| !self.nt.contains(s));
                for s in set {
                    self.nt.insert(s.clone());
                }
            }
        }
        if self.samples.is_empty() || (nontrivial && self.samples.len() < 3) || (new && self.samples.len() < 6) {
            self.samples.push(sample());
        }
    }

    pub fn merge(&mut self, o: &Accum) {
        self.cases += o.cases;
        self.steps += o.steps;
        self.skipped += o.skipped;
        self.nt_cases += o.nt_cases;
        self.crashed += o.crashed;
        for (k, v) in &o.events { *self.events.entry(k.clone()).or_insert(0) += v; }
        for (k, v) in &o.foreign { *self.foreign.entry(k.clone()).or_insert(0) += v; }
        for (k, v) in &o.known { *self.known.entry(k.clone()).or_insert(0) += v; }
        for s in &o.nt { self.nt.insert(s.clone()); }
        for s in &o.samples {
            if self.samples.len() < 8 { self.samples.push(s.clone()); }
        }
        for v in &o.violations { self.violations.push(v.clone()); }
        for n in &o.notes { if !self.notes.contains(n) { self.notes.push(n.clone()); } }
        self.exhaustive = self.exhaustive || o.exhaustive;
    }

    pub fn to_json(&self) -> Value {
        json!({
            "cases": self.cases, "steps": self.steps, "events": self.events,
            "nt": self.nt.iter().collect::<Vec<_>>(), "nt_cases": self.nt_cases,
            "samples": self.samples, "foreign": self.foreign, "known": self.known,
            "skipped": self.skipped, "notes": self.notes, "exhaustive": self.exhaustive,
            "crashed": self.crashed,
            "violations": self.violations.iter().map(|v| json!({"replay": v.replay_text, "msg": v.msg, "sig": v.sig})).collect::<Vec<_>>(),
        })
    }

    pub fn from_json(v: &Value) -> Accum {
        let map_u64 = |k: &str| -> BTreeMap<String, u64> {
            v.get(k).and_then(|m| m.as_object()).map(|m| m.iter()
                .map(|(a, b)| (a.clone(), b.as_u64().unwrap_or(0))).collect()).unwrap_or_default()
        };
        let strs = |k: &str| -> Vec<String> {
            v.get(k).and_then(|a| a.as_array()).map(|a| a.iter()
                .filter_map(|s| s.as_str().map(|s| s.to_string())).collect()).unwrap_or_default()
        };
        Accum {
            cases: v.get("cases").and_then(|x| x.as_u64()).unwrap_or(0),
            steps: v.get("steps").and_then(|x| x.as_u64()).unwrap_or(0),
            events: map_u64("events"),
            nt: strs("nt").into_iter().collect(),
            nt_cases: v.get("nt_cases").and_then(|x| x.as_u64()).unwrap_or(0),
            samples: strs("samples"),
            foreign: map_u64("foreign"),
            known: map_u64("known"),
            skipped: v.get("skipped").and_then(|x| x.as_u64()).unwrap_or(0),
            notes: strs("notes"),
            exhaustive: v.get("exhaustive").and_then(|x| x.as_bool()).unwrap_or(false),
            crashed: v.get("crashed").and_then(|x| x.as_u64()).unwrap_or(0),
            violations: v.get("violations").and_then(|a| a.as_array()).map(|a| a.iter().map(|e| Violation {
                replay_text: e.get("replay").and_then(|s| s.as_str()).unwrap_or("").to_string(),
                msg: e.get("msg").and_then(|s| s.as_str()).unwrap_or("").to_string(),
                sig: e.get("sig").and_then(|s| s.as_str()).unwrap_or("").to_string(),
            }).collect()).unwrap_or_default(),
        }
    }
}

/// How a case's failures bear on the property under check.
pub enum Verdict {
    Pass,
    /// failure of the target property, not listed as known
    Violation(Failure),
    Known(String),
    Foreign(String),
}

pub fn judge(fails: &[Failure], prop: &str, known: &[Known]) -> Verdict {
    if fails.is_empty() {
        return Verdict::Pass;
    }
    let mine: Vec<&Failure> = fails.iter().filter(|f| f.has(prop)).collect();
    if mine.is_empty() {
        let f = &fails[0];
        return Verdict::Foreign(format!("{}:{}", f.tags.join("+"), f.sig));
    }
    for f in &mine {
        if is_known(known, prop, &f.sig).is_none() {
            return Verdict::Violation((*f).clone());
        }
    }
    Verdict::Known(mine[0].sig.clone())
}

/// Text of a replay file: header comments, the case, and (optionally) the
/// resolved trace as trailing comments.
pub fn replay_text(prop: &str, case: &Case, f: Option<&Failure>, trace: &[String]) -> String {
    let mut s = String::new();
    s.push_str(&format!("# replay for property {}\n", prop));
    if let Some(f) = f {
        s.push_str(&format!("# failure at step {}: [{}] {}\n", f.step, f.sig, f.msg.replace('\n', " ")));
    }
    s.push_str(&case.to_text());
    if !trace.is_empty() {
        s.push_str("# resolved operations:\n");
        for t in trace.iter().take(400) {
            s.push_str(&format!("#   {}\n", t));
        }
    }
    s
}

pub fn current_file(out: &Path) -> PathBuf {
    let mut p = out.as_os_str().to_owned();
    p.push(".current");
    PathBuf::from(p)
}

pub fn write_current(out: &Path, text: &str) {
    let _ = std::fs::write(current_file(out), text);
}

pub fn sample_text(case: &Case) -> String {
    let mut s = case.config.to_line();
    for op in case.ops.iter().take(40) {
        s.push_str(" ; ");
        s.push_str(&op.to_line());
    }
    if case.ops.len() > 40 {
        s.push_str(&format!(" ; ... ({} ops)", case.ops.len()));
    }
    s
}

/// Delta-debugging style minimisation of the op list for a failure that is
/// reproduced by `still_fails`.
pub fn ddmin_ops(case: &Case, mut still_fails: impl FnMut(&Case) -> bool, budget: usize) -> Case {
    let mut best = case.clone();
    let mut n = 2usize;
    let mut tries = 0usize;
    while best.ops.len() >= 2 && tries < budget {
        let len = best.ops.len();
        let chunk = (len + n - 1) / n;
        let mut reduced = false;
        let mut start = 0;
        while start < len && tries < budget {
            let end = (start + chunk).min(len);
            let mut ops: Vec<Op> = Vec::with_capacity(len - (end - start));
            ops.extend_from_slice(&best.ops[..start]);
            ops.extend_from_slice(&best.ops[end..]);
            let cand = Case { config: best.config.clone(), ops };
            tries += 1;
            if still_fails(&cand) {
                best = cand;
                n = (n - 1).max(2);
                reduced = true;
                break;
            }
            start = end;
        }
        if !reduced {
            if n >= len {
                break;
            }
            n = (n * 2).min(len);
        }
    }
    best
}
