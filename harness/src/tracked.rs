//! Identity-tracked keys and values and the per-thread registry that records
//! every construction, clone, callback and drop.
//!
//! The objects own no memory the harness depends on, so a double drop or a
//! callback on a dead object is *recorded* (and reported by the interpreter)
//! instead of corrupting the harness. With the `asanbox` feature each object
//! additionally owns a one-byte box so that AddressSanitizer corroborates.

use std::borrow::Borrow;
use std::cell::RefCell;
use std::hash::{Hash, Hasher};

use lru_mem::HeapSize;

pub const INJECTED: &str = "VERIF-INJECTED-PANIC";

#[derive(Clone, Copy, Debug, PartialEq, Eq, Hash, PartialOrd, Ord)]
pub enum Cb {
    Hash,
    Eq,
    CloneK,
    CloneV,
    SizeK,
    SizeV,
    Closure,
    Pred,
    Borrow,
    /// destructor of a key / of a value (run by the cache, inside an operation)
    DropK,
    DropV,
    /// not a panic: at the n-th `Hash` call of the operation, the user code
    /// operates *another* cache of the same thread (which reallocates). Two
    /// caches share nothing, so this must be invisible.
    Reenter,
}

/// number of callback kinds (size of the per-kind counters)
pub const NCB: usize = 12;

pub const CB_KINDS: [Cb; 11] = [
    Cb::Hash, Cb::Eq, Cb::CloneK, Cb::CloneV, Cb::SizeK, Cb::SizeV,
    Cb::Closure, Cb::Pred, Cb::DropK, Cb::DropV, Cb::Reenter,
];

impl Cb {
    pub fn idx(self) -> usize {
        self as usize
    }

    pub fn name(self) -> &'static str {
        match self {
            Cb::Hash => "hash",
            Cb::Eq => "eq",
            Cb::CloneK => "clonek",
            Cb::CloneV => "clonev",
            Cb::SizeK => "sizek",
            Cb::SizeV => "sizev",
            Cb::Closure => "closure",
            Cb::Pred => "pred",
            Cb::Borrow => "borrow",
            Cb::DropK => "dropk",
            Cb::DropV => "dropv",
            Cb::Reenter => "reenter",
        }
    }

    /// a destructor: not among the callbacks C16 enumerates
    pub fn is_drop(self) -> bool {
        matches!(self, Cb::DropK | Cb::DropV)
    }

    pub fn from_name(s: &str) -> Option<Cb> {
        Some(match s {
            "hash" => Cb::Hash,
            "eq" => Cb::Eq,
            "clonek" => Cb::CloneK,
            "clonev" => Cb::CloneV,
            "sizek" => Cb::SizeK,
            "sizev" => Cb::SizeV,
            "closure" => Cb::Closure,
            "pred" => Cb::Pred,
            "borrow" => Cb::Borrow,
            "dropk" => Cb::DropK,
            "dropv" => Cb::DropV,
            "reenter" => Cb::Reenter,
            _ => return None,
        })
    }
}

#[derive(Clone, Copy, Debug, PartialEq, Eq)]
pub enum St {
    Live,
    Dropped,
}

#[derive(Clone, Copy, Debug, PartialEq, Eq)]
pub enum Owner {
    Harness,
    Cache,
}

#[derive(Clone, Copy, Debug)]
pub struct Obj {
    pub st: St,
    pub owner: Owner,
    pub origin: u64,
    pub is_key: bool,
    /// the harness has decided that this object may legitimately never be
    /// dropped (forgotten iterator, unwinding callback)
    pub leak_ok: bool,
    /// position in the sequence of all drops of this case (0 = not dropped)
    pub drop_seq: u64,
}

#[derive(Clone, Debug, PartialEq, Eq)]
pub enum VioKind {
    DoubleDrop,
    UseAfterDrop,
    UseAfterMoveOut,
    UnknownId,
}

#[derive(Clone, Debug)]
pub struct Vio {
    pub kind: VioKind,
    pub id: u64,
    pub what: &'static str,
}

impl Vio {
    pub fn describe(&self) -> String {
        format!("{:?} id={} during {}", self.kind, self.id, self.what)
    }
}

#[derive(Default)]
pub struct Registry {
    pub objs: Vec<Option<Obj>>,
    pub vios: Vec<Vio>,
    pub counts: [u64; NCB],
    /// armed panic: (kind, calls remaining until the panic)
    pub trigger: Option<(Cb, u64)>,
    /// a cache operation is running
    pub window: bool,
    /// harness-owned ids that the running operation may touch (arguments)
    pub allowed: Vec<u64>,
    pub drops: u64,
    pub created: u64,
    pub injected_fired: u64,
    /// once the armed closure panic has fired, measuring the value panics too
    /// until the operation is over (a value left in a state in which its size
    /// cannot be taken - a poisoned lock - by the closure that panicked)
    pub sticky_armed: bool,
    pub sticky_on: bool,
}

thread_local! {
    static REG: RefCell<Registry> = RefCell::new(Registry::default());
}

pub fn with_reg<R>(f: impl FnOnce(&mut Registry) -> R) -> R {
    REG.with(|r| f(&mut r.borrow_mut()))
}

/// Forget everything (start of a case). Objects from earlier cases must all be
/// gone or deliberately leaked by then.
pub fn reset() {
    with_reg(|r| {
        r.objs.clear();
        r.objs.push(None);
        r.vios.clear();
        r.counts = [0; NCB];
        r.trigger = None;
        r.window = false;
        r.allowed.clear();
        r.drops = 0;
        r.created = 0;
        r.injected_fired = 0;
    });
}

fn register(is_key: bool, origin: u64, owner: Owner) -> u64 {
    REG.try_with(|r| {
        let mut r = r.borrow_mut();
        if r.objs.is_empty() {
            r.objs.push(None);
        }
        let id = r.objs.len() as u64;
        r.objs.push(Some(Obj { st: St::Live, owner, origin, is_key, leak_ok: false, drop_seq: 0 }));
        r.created += 1;
        id
    }).unwrap_or(0)
}

fn liveness(r: &mut Registry, id: u64, cb: Cb) {
    let state = r.objs.get(id as usize).copied().flatten();
    match state {
        None => r.vios.push(Vio { kind: VioKind::UnknownId, id, what: cb.name() }),
        Some(o) => {
            if o.st == St::Dropped {
                r.vios.push(Vio { kind: VioKind::UseAfterDrop, id, what: cb.name() });
            }
            else if r.window && o.owner == Owner::Harness && !r.allowed.contains(&id) {
                r.vios.push(Vio { kind: VioKind::UseAfterMoveOut, id, what: cb.name() });
            }
        }
    }
}

fn check_live(id: u64, cb: Cb) {
    let _ = REG.try_with(|r| liveness(&mut r.borrow_mut(), id, cb));
}

/// Records a callback on object `id`; returns true when an armed panic is to
/// fire now (the caller panics after the registry borrow is released).
fn callback(id: u64, cb: Cb) -> bool {
    REG.try_with(|r| {
        let mut r = r.borrow_mut();
        r.counts[cb.idx()] += 1;
        liveness(&mut r, id, cb);
        if r.sticky_on && cb == Cb::SizeV {
            return true;
        }
        match r.trigger {
            Some((k, n)) if k == cb => {
                if n <= 1 {
                    r.trigger = None;
                    r.injected_fired += 1;
                    true
                }
                else {
                    r.trigger = Some((k, n - 1));
                    false
                }
            },
            _ => false,
        }
    }).unwrap_or(false)
}

/// A callback that is not tied to an object (mutate closure, retain predicate).
pub fn free_callback(cb: Cb) {
    let fire = REG.try_with(|r| {
        let mut r = r.borrow_mut();
        r.counts[cb.idx()] += 1;
        match r.trigger {
            Some((k, n)) if k == cb => {
                if n <= 1 {
                    r.trigger = None;
                    r.injected_fired += 1;
                    if r.sticky_armed && cb == Cb::Closure {
                        r.sticky_on = true;
                    }
                    true
                }
                else {
                    r.trigger = Some((k, n - 1));
                    false
                }
            },
            _ => false,
        }
    }).unwrap_or(false);
    if fire {
        panic!("{}", INJECTED);
    }
}

/// Records the destruction of object `id`; returns true when an armed
/// destructor panic is to fire now. Destructors only ever panic inside a cache
/// operation (callback window) and never while the thread is unwinding already.
fn on_drop(id: u64) -> bool {
    REG.try_with(|r| {
        let mut r = r.borrow_mut();
        r.drops += 1;
        let is_key = r.objs.get(id as usize).copied().flatten().map(|o| o.is_key);
        let mut fire = false;
        if let (Some(is_key), true) = (is_key, r.window) {
            let cb = if is_key { Cb::DropK } else { Cb::DropV };
            r.counts[cb.idx()] += 1;
            if let Some((k, n)) = r.trigger {
                if k == cb {
                    if n <= 1 {
                        r.trigger = None;
                        if !std::thread::panicking() {
                            r.injected_fired += 1;
                            fire = true;
                        }
                    }
                    else {
                        r.trigger = Some((k, n - 1));
                    }
                }
            }
        }
        let slot = r.objs.get(id as usize).copied().flatten();
        match slot {
            None => r.vios.push(Vio { kind: VioKind::UnknownId, id, what: "drop" }),
            Some(o) => {
                if o.st == St::Dropped {
                    r.vios.push(Vio { kind: VioKind::DoubleDrop, id, what: "drop" });
                }
                else {
                    let seq = r.drops;
                    if let Some(Some(o)) = r.objs.get_mut(id as usize) {
                        o.st = St::Dropped;
                        o.drop_seq = seq;
                    }
                }
            }
        }
        fire
    }).unwrap_or(false)
}

pub fn obj(id: u64) -> Option<Obj> {
    with_reg(|r| r.objs.get(id as usize).copied().flatten())
}

pub fn set_owner(id: u64, owner: Owner) {
    with_reg(|r| {
        if let Some(Some(o)) = r.objs.get_mut(id as usize) {
            o.owner = owner;
        }
    })
}

pub fn set_leak_ok(id: u64) {
    with_reg(|r| {
        if let Some(Some(o)) = r.objs.get_mut(id as usize) {
            o.leak_ok = true;
        }
    })
}

pub fn take_vios() -> Vec<Vio> {
    with_reg(|r| std::mem::take(&mut r.vios))
}

pub fn counts() -> [u64; NCB] {
    with_reg(|r| r.counts)
}

pub fn open_window(allowed: &[u64]) {
    with_reg(|r| {
        r.window = true;
        r.allowed.clear();
        r.allowed.extend_from_slice(allowed);
        r.counts = [0; NCB];
    })
}

/// The armed closure panic, once fired, also makes every later measurement of
/// a value inside the same operation panic.
pub fn arm_sticky() {
    with_reg(|r| r.sticky_armed = true)
}

pub fn close_window() -> [u64; NCB] {
    with_reg(|r| {
        r.window = false;
        r.sticky_armed = false;
        r.sticky_on = false;
        r.allowed.clear();
        r.counts
    })
}

pub fn arm(cb: Cb, nth: u64) {
    with_reg(|r| r.trigger = Some((cb, nth)))
}

/// Disarms; returns true if the trigger was still armed (did not fire).
pub fn disarm() -> bool {
    with_reg(|r| r.trigger.take().is_some())
}

/// Ids that are still live (for the leak check at the end of a case).
pub fn live_ids() -> Vec<(u64, Obj)> {
    with_reg(|r| {
        r.objs.iter().enumerate()
            .filter_map(|(i, o)| o.map(|o| (i as u64, o)))
            .filter(|(_, o)| o.st == St::Live)
            .collect()
    })
}

#[derive(Debug)]
pub struct TKey {
    pub id: u64,
    pub k: u16,
    pub heap: usize,
    #[cfg(feature = "asanbox")]
    _b: Box<u8>,
}

#[derive(Debug)]
pub struct TVal {
    pub id: u64,
    pub tag: u32,
    pub heap: usize,
    /// reserved-but-unused memory (counted by heap_size like a String's spare
    /// capacity); a clone does not carry it over
    pub spare: usize,
    #[cfg(feature = "asanbox")]
    _b: Box<u8>,
}

impl TKey {
    pub fn new(k: u16, heap: usize) -> TKey {
        TKey {
            id: register(true, 0, Owner::Harness),
            k,
            heap,
            #[cfg(feature = "asanbox")]
            _b: Box::new(0),
        }
    }
}

impl TVal {
    /// measured heap size: payload plus spare
    pub fn measured(&self) -> usize {
        self.heap + self.spare
    }

    pub fn new(tag: u32, heap: usize) -> TVal {
        TVal {
            id: register(false, 0, Owner::Harness),
            tag,
            heap,
            spare: 0,
            #[cfg(feature = "asanbox")]
            _b: Box::new(0),
        }
    }
}

impl Drop for TKey {
    fn drop(&mut self) {
        if on_drop(self.id) {
            panic!("{}", INJECTED);
        }
    }
}

impl Drop for TVal {
    fn drop(&mut self) {
        if on_drop(self.id) {
            panic!("{}", INJECTED);
        }
    }
}

impl Clone for TKey {
    fn clone(&self) -> TKey {
        if callback(self.id, Cb::CloneK) {
            panic!("{}", INJECTED);
        }
        // a clone made while a cache operation runs belongs to a cache
        let owner = with_reg(|r| if r.window { Owner::Cache } else { Owner::Harness });
        TKey {
            id: register(true, self.id, owner),
            k: self.k,
            heap: self.heap,
            #[cfg(feature = "asanbox")]
            _b: Box::new(0),
        }
    }
}

impl Clone for TVal {
    fn clone(&self) -> TVal {
        if callback(self.id, Cb::CloneV) {
            panic!("{}", INJECTED);
        }
        let owner = with_reg(|r| if r.window { Owner::Cache } else { Owner::Harness });
        TVal {
            id: register(false, self.id, owner),
            tag: self.tag,
            heap: self.heap,
            spare: 0,
            #[cfg(feature = "asanbox")]
            _b: Box::new(0),
        }
    }
}

thread_local! {
    /// the other cache of this thread that a re-entrant `Hash` operates
    static OTHER: RefCell<Option<lru_mem::LruCache<u32, u32>>> = const { RefCell::new(None) };
}

/// What a `Hash` implementation that memoises through a second cache does:
/// an insertion and a rebuild of that other cache's table.
fn operate_other_cache() {
    let _ = OTHER.try_with(|o| {
        if let Ok(mut o) = o.try_borrow_mut() {
            let c = o.get_or_insert_with(|| lru_mem::LruCache::new(usize::MAX));
            if c.capacity() > 100 {
                c.clear();
                c.shrink_to_fit();
            }
            let n = c.len() as u32;
            let _ = c.insert(n, n);
            // a request beyond the capacity: the table is rebuilt
            let more = c.capacity() + 1 - c.len();
            c.reserve(more);
            let _ = c.get(&0);
        }
    });
}

/// Counts down an armed `Reenter` on `Hash` calls; true when it is due.
fn reenter_due() -> bool {
    REG.try_with(|r| {
        let mut r = r.borrow_mut();
        match r.trigger {
            Some((Cb::Reenter, n)) if r.window => {
                if n <= 1 { r.trigger = None; r.counts[Cb::Reenter.idx()] += 1; true }
                else { r.trigger = Some((Cb::Reenter, n - 1)); false }
            },
            _ => false,
        }
    }).unwrap_or(false)
}

impl Hash for TKey {
    fn hash<H: Hasher>(&self, state: &mut H) {
        if callback(self.id, Cb::Hash) {
            panic!("{}", INJECTED);
        }
        if reenter_due() {
            operate_other_cache();
        }
        state.write_u16(self.k)
    }
}

impl PartialEq for TKey {
    fn eq(&self, other: &TKey) -> bool {
        check_live(other.id, Cb::Eq);
        if callback(self.id, Cb::Eq) {
            panic!("{}", INJECTED);
        }
        self.k == other.k
    }
}

impl Eq for TKey { }

impl Borrow<u16> for TKey {
    fn borrow(&self) -> &u16 {
        callback(self.id, Cb::Borrow);
        &self.k
    }
}

impl HeapSize for TKey {
    fn heap_size(&self) -> usize {
        if callback(self.id, Cb::SizeK) {
            panic!("{}", INJECTED);
        }
        self.heap
    }
}

impl HeapSize for TVal {
    fn heap_size(&self) -> usize {
        if callback(self.id, Cb::SizeV) {
            panic!("{}", INJECTED);
        }
        self.heap + self.spare
    }
}

thread_local! {
    static EXPECTED_PANICS: std::cell::Cell<u32> = const { std::cell::Cell::new(0) };
}

/// Runs `f` with panics *expected*: whatever hook was installed before ours
/// (libFuzzer's aborts the process) is not consulted for panics raised inside.
pub fn expecting_panics<R>(f: impl FnOnce() -> R) -> R {
    EXPECTED_PANICS.with(|c| c.set(c.get() + 1));
    let r = std::panic::catch_unwind(std::panic::AssertUnwindSafe(f));
    EXPECTED_PANICS.with(|c| c.set(c.get() - 1));
    match r {
        Ok(r) => r,
        Err(p) => std::panic::resume_unwind(p),
    }
}

/// Silences the default panic message for injected panics (there are
/// millions of them); everything else is printed as usual unless quiet.
pub fn install_panic_hook(quiet_all: bool) {
    let default = std::panic::take_hook();
    std::panic::set_hook(Box::new(move |info| {
        let msg = if let Some(s) = info.payload().downcast_ref::<&str>() {
            (*s).to_string()
        }
        else if let Some(s) = info.payload().downcast_ref::<String>() {
            s.clone()
        }
        else {
            String::new()
        };
        // panics raised by the harness' own code are never silenced: they make a
        // run inconclusive and have to be seen
        if EXPECTED_PANICS.with(|c| c.get()) > 0 {
            return;
        }
        let own = info.location().map(|l| l.file().starts_with("src/")).unwrap_or(false);
        if msg.contains(INJECTED) || (quiet_all && !own && std::env::var_os("VERIF_LOUD").is_none()) {
            return;
        }
        default(info);
    }));
}

pub fn panic_message(payload: &(dyn std::any::Any + Send)) -> String {
    if let Some(s) = payload.downcast_ref::<&str>() {
        (*s).to_string()
    }
    else if let Some(s) = payload.downcast_ref::<String>() {
        s.clone()
    }
    else {
        "<non-string panic payload>".to_string()
    }
}
