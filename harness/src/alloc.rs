//! Counting / failing global allocator with per-thread accounting.
//!
//! `live()` is the number of bytes of *requested* layout sizes currently held
//! by allocations made on this thread (and freed on this thread). `fail_next_ge(n)`
//! makes the next allocation request of at least `n` bytes on this thread
//! return null (used to inject allocator refusal into `try_reserve`).
//!
//! The thread-locals are const-initialised `Cell`s without destructors, so
//! touching them inside the allocator neither allocates nor registers a
//! destructor.

use std::alloc::{GlobalAlloc, Layout, System};
use std::cell::Cell;

thread_local! {
    static LIVE: Cell<isize> = const { Cell::new(0) };
    static ALLOCS: Cell<u64> = const { Cell::new(0) };
    static FAIL_GE: Cell<usize> = const { Cell::new(0) };
    static FAILED: Cell<u64> = const { Cell::new(0) };
    static FAIL_NTH: Cell<u64> = const { Cell::new(0) };
}

pub struct VAlloc;

#[inline]
fn add_live(d: isize) {
    let _ = LIVE.try_with(|c| c.set(c.get() + d));
}

#[inline]
fn should_fail(size: usize) -> bool {
    let nth = FAIL_NTH.try_with(|c| {
        let n = c.get();
        if n == 0 {
            false
        }
        else if n == 1 {
            c.set(0);
            let _ = FAILED.try_with(|f| f.set(f.get() + 1));
            true
        }
        else {
            c.set(n - 1);
            false
        }
    }).unwrap_or(false);
    if nth {
        return true;
    }
    FAIL_GE.try_with(|c| {
        let t = c.get();
        if t != 0 && size >= t {
            c.set(0);
            let _ = FAILED.try_with(|f| f.set(f.get() + 1));
            true
        }
        else {
            false
        }
    }).unwrap_or(false)
}

unsafe impl GlobalAlloc for VAlloc {
    unsafe fn alloc(&self, layout: Layout) -> *mut u8 {
        if should_fail(layout.size()) {
            return std::ptr::null_mut();
        }
        let p = System.alloc(layout);
        if !p.is_null() {
            add_live(layout.size() as isize);
            let _ = ALLOCS.try_with(|c| c.set(c.get() + 1));
        }
        p
    }

    unsafe fn alloc_zeroed(&self, layout: Layout) -> *mut u8 {
        if should_fail(layout.size()) {
            return std::ptr::null_mut();
        }
        let p = System.alloc_zeroed(layout);
        if !p.is_null() {
            add_live(layout.size() as isize);
            let _ = ALLOCS.try_with(|c| c.set(c.get() + 1));
        }
        p
    }

    unsafe fn dealloc(&self, ptr: *mut u8, layout: Layout) {
        add_live(-(layout.size() as isize));
        System.dealloc(ptr, layout)
    }

    unsafe fn realloc(&self, ptr: *mut u8, layout: Layout, new_size: usize) -> *mut u8 {
        if new_size > layout.size() && should_fail(new_size) {
            return std::ptr::null_mut();
        }
        let p = System.realloc(ptr, layout, new_size);
        if !p.is_null() {
            add_live(new_size as isize - layout.size() as isize);
        }
        p
    }
}

pub fn live() -> isize {
    LIVE.with(|c| c.get())
}

pub fn allocs() -> u64 {
    ALLOCS.with(|c| c.get())
}

/// Arms a one-shot refusal: the next request of at least `n` bytes fails.
pub fn fail_next_ge(n: usize) {
    FAIL_GE.with(|c| c.set(n));
}

/// Arms a one-shot refusal of the n-th allocation request from now (n >= 1).
pub fn fail_nth(n: u64) {
    FAIL_NTH.with(|c| c.set(n));
}

/// Disarms; returns true if a refusal was still armed (nothing failed).
pub fn disarm() -> bool {
    let a = FAIL_GE.with(|c| {
        let armed = c.get() != 0;
        c.set(0);
        armed
    });
    let b = FAIL_NTH.with(|c| {
        let armed = c.get() != 0;
        c.set(0);
        armed
    });
    a || b
}

pub fn failed() -> u64 {
    FAILED.with(|c| c.get())
}
